/-
Sequences as the translator `translators/rs2lean.py` uses them (second support library of
`OH/Generated/Arith.lean`, next to `OH/Model/RustInt.lean`; hand-written, small, core-only).

* a `Vec<T>`, a slice and a CONSUMED iterator over a vector (`vec.into_iter()`, of which only `.next()` is
  called) are a `List T`; `it.next()` is `iterNext` (head and rest);
* `while let Some(x) = it.next() { body }` is a definition by structural recursion over that list (the
  translator emits one per loop; the body may not touch `it`), whose result says how the loop was left:
  `Flow.ret v s` = a `return v` inside the body (with the state at that point), `Flow.next s` = the
  iterator ran out;
* `std::iter::from_fn(move || body)` is `fromFn`: the closure (a function from the captured state to the
  item and the new state) is called until it returns `None`, the items are collected.  The number of calls
  is bounded by an explicit `fuel` parameter of the generated definition; running out of fuel is the
  outcome `.error (.panic fuelExhausted)`, and the theorems show that it is NOT reached for any fuel above
  a stated bound -- i.e. the iterator ends;
* `Option::replace` / `Option::take` return the old value and leave `Some(new)` / `None`: the translator
  writes them out as two `let`s;
* `Result<usize, usize>` (the result of `slice::binary_search`) is `Except Int Int`
  (`Err(i)` ↦ `.error i`, `Ok(i)` ↦ `.ok i`); `slice::get(i)` is `seqGet`;
* `Iterator::min()` over `Option<NaiveDate>` items is `iterMinOptDate` (sixth increment, `next_change_hint`);
* `Ord::cmp` on a generic `T: Ord` is `compare` of an `[Ord T]` parameter about which nothing is assumed.

Library calls whose code is NOT translated (`sort_unstable_by`, `sort_unstable`, `dedup`,
`binary_search`) do not appear here: their results are parameters `ext<n>` of the generated definitions
and their contracts are hypotheses of the theorems (`OH/Props/ArithC14Union.lean`, `ArithC20.lean`).
-/
import OH.Model.RustInt
namespace OH.Model.RustInt

/-- the message of the outcome "the fuel of a `from_fn` iteration ran out" -/
def fuelExhausted : String := "rs2lean: the fuel of a from_fn iteration ran out"

/-- how a translated `while let` loop was left -/
inductive Flow (ρ σ : Type) where
  /-- `return v` inside the loop body; `s` = the state at that point -/
  | ret (v : ρ) (s : σ)
  /-- the iterator is exhausted; `s` = the state then -/
  | next (s : σ)

/-- `it.next()` on a consumed vector iterator: the item and the rest -/
def iterNext {α : Type} : List α → Option α × List α
  | [] => (none, [])
  | x :: xs => (some x, xs)

/-- `std::iter::from_fn(f)`, collected: `f` is called until it returns `None` (at most `fuel` times) -/
def fromFn {σ α : Type} (f : σ → R (Option α × σ)) : Nat → σ → R (List α)
  | 0, _ => .error (.panic fuelExhausted)
  | fuel + 1, s =>
    bnd (f s) fun r =>
    match r.1 with
    | none => .ok []
    | some a => bnd (fromFn f fuel r.2) fun l => .ok (a :: l)

/-- `slice.get(i)` with `i: usize` -/
def seqGet {α : Type} (v : List α) (i : Int) : Option α := if i < 0 then none else v[i.toNat]?

/-- `Result::is_ok` -/
def resIsOk {ε α : Type} : Except ε α → Bool
  | .ok _ => true
  | .error _ => false

/-- `let (Ok(i) | Err(i)) = r;` -/
def resEither {α : Type} : Except α α → α
  | .ok i => i
  | .error i => i

/-- `Vec::pop`: the last element and the rest -/
def seqPop {α : Type} (v : List α) : Option α × List α := (v.getLast?, v.dropLast)

/-- `a > b` for `Option<NaiveDate>` (derived `Ord` on `Option`: `None` is less than every `Some(_)`; dates by day number) -/
def optDateGt : Option Int → Option Int → Bool
  | none, _ => false
  | some _, none => true
  | some a, some b => decide (a > b)

/-- `Iterator::min()` for `Item = Option<NaiveDate>`: std's `reduce(|a, b| min_by(a, b, Ord::cmp))`, where `min_by(a, b)`
is `b` when `a.cmp(&b) == Greater` and `a` otherwise; `None` for an empty iterator -/
def iterMinOptDate : List (Option Int) → Option (Option Int)
  | [] => none
  | x :: xs => some (xs.foldl (fun acc y => if optDateGt acc y then y else acc) x)

end OH.Model.RustInt
