import OH.Model.CompactCalendar
import OH.Model.Eval
import OH.Model.Country
import OH.Model.Inflate
/-
Model of the embedded holiday data base (property C10):

* `opening-hours/build.rs`, `generate_holiday_database`: read `data/holidays_{public,school}.txt`
  (lines `REGION YYYY-MM-DD`), group the dates per region in a `BTreeMap<String, Vec<NaiveDate>>`,
  build one `CompactCalendar` per region by `insert`, `serialize` them in region order into ONE
  stream, export the region list joined by `,`;
* `opening-hours/src/localization/country/mod.rs`, `Country::holidays` / `decode_holidays_db`:
  split the region list on `,`, `CompactCalendar::deserialize` sequentially from the one reader,
  keep the regions that `parse::<Country>()`, `collect` into a `HashMap`, `get(..).unwrap_or_default()`;
* `opening-hours/src/localization/country/generated.rs`: `enum Country`, through the tables of
  `OH.Generated.Countries` (regenerated from the Rust file by `translators/countries2lean.py`).

One Lean definition per Rust function / std operation, same control flow, panics and build errors
explicit (`Except String`, the string names the site).

The deflate layer.  `build.rs` writes the stream through `flate2::write::DeflateEncoder`,
`decode_holidays_db` reads it through `flate2::bufread::DeflateDecoder`.  The ENCODER (miniz_oxide's
compressor, `Compression::best()`) is not modelled and nothing is assumed about it: `encodeDb` is what
`build.rs` hands to the encoder, `decodeDb` is what `decode_holidays_db` does with the bytes the
decoder serves, and `decodeHolidaysDb` below puts the model of the DECODER (`OH.Model.Inflate`,
RFC 1951) in front of it.  That the compressed bytes really embedded in the binary (`include_bytes!`,
exported by the guarded hook `Country::verif_holiday_db`) inflate to exactly `encodeDb` of the
source file is CHECKED on every run by the driver (`hol.raw`), and it is the hypothesis of the
theorems of `OH/Props/C10I.lean`; no `inflate (deflate bs) = bs` is assumed any more.  What is left:
the real decoder is compared with the Lean `inflate` only through what comes out of it (the
exhaustive calendar dumps of `hol.cal`), and it serves `read_exact` the inflated bytes in order.

Other modelling remarks:
* `NaiveDate::parse_from_str(s, "%Y-%m-%d")` is modelled ONLY on the shape present in the files:
  exactly `DDDD-DD-DD` (4, 2, 2 ASCII digits).  There chrono reads year, month, day as plain
  decimal numbers and answers `Ok` iff `from_ymd_opt` accepts the triple.  chrono accepts more
  shapes (leading blanks, signs, 1-digit fields, …): on any other shape the model stops with
  `shapeNotModelled` instead of guessing.  The op `hol.pdate` compares this function with chrono.
* `BTreeMap<String, _>` is a sorted association list.  Rust orders `String`s by bytes, Lean's
  `String.<` by code points; the two orders coincide for UTF-8 (and the files are ASCII).  No
  theorem depends on which total order is used, only on the keys being distinct.
* `HashMap::from_iter` inserts the pairs in order (a later pair with the same key overwrites an
  earlier one); the map is modelled by that list of pairs, `get` = the LAST pair with the key.
* a `Country` value is named by its variant identifier (a `String` of `Countries.variants`), see
  `OH.Model.Country`.

Core-only imports: this file is linked into the compiled driver.
-/
namespace OH.Model.HolidayDb
open OH.Model.CompactCalendar OH.Model.CompactCalendar.CompactCalendar

/-- one parsed line of a data file -/
abbrev Line := String × Date

/-- `BTreeMap<String, Vec<NaiveDate>>`: association list, keys strictly increasing -/
abbrev Db := List (String × List Date)

/-! ## reading the text file (`build.rs`) -/

def digit? (c : Char) : Option Nat :=
  if '0' ≤ c ∧ c ≤ '9' then some (c.toNat - 48) else none

def shapeNotModelled : String := "model: date string is not of the shape DDDD-DD-DD"

/-- `NaiveDate::parse_from_str(s, "%Y-%m-%d")` on the shape `DDDD-DD-DD`; the `?` of `build.rs:48`
turns chrono's `Err(ParseError(OutOfRange))` (month 0 or > 12, day 0 or > 31, day beyond the
month's length) into the build error `"build.rs:48 ParseError"`. -/
def parseDate (s : List Char) : Except String Date :=
  match s with
  | [y1, y2, y3, y4, '-', m1, m2, '-', d1, d2] =>
    match digit? y1, digit? y2, digit? y3, digit? y4, digit? m1, digit? m2, digit? d1, digit? d2 with
    | some y1, some y2, some y3, some y4, some m1, some m2, some d1, some d2 =>
      let y : Int := ((1000 * y1 + 100 * y2 + 10 * y3 + y4 : Nat) : Int)
      let m := 10 * m1 + m2
      let d := 10 * d1 + d2
      if validYmd y m d then .ok ⟨y, m, d⟩ else .error "build.rs:48 ParseError"
    | _, _, _, _, _, _, _, _ => .error shapeNotModelled
  | _ => .error shapeNotModelled

/-- the terminator handling of `BufRead::lines`: a trailing `\r` of a line is dropped with its `\n` -/
def stripCR (l : String) : String :=
  if l.endsWith "\r" then (l.dropEnd 1).toString else l

/-- `BufReader::new(file).lines()` on the file's text (the file must be UTF-8, else `line?` fails):
the pieces between `\n`s; no last empty piece after a final `\n` (and none for an empty file) -/
def bufLines (text : String) : List String :=
  let parts := text.splitOn "\n"
  let parts := if parts.getLast? == some "" then parts.dropLast else parts
  parts.map stripCR

/-- the body of the `for line in lines` loop up to the map update:
`line.splitn(2, ' ')`, `expect("missing region")` (cannot fail: `splitn` yields at least one item),
`expect("missing date")` (panics when the line has no blank), `parse_from_str(..)?` -/
def parseLine (line : String) : Except String Line :=
  let cs := line.toList
  let region := cs.takeWhile (· != ' ')
  match cs.dropWhile (· != ' ') with
  | [] => .error "build.rs:48 missing date"
  | _ :: dateStr =>
    match parseDate dateStr with
    | .error e => .error e
    | .ok d => .ok (String.ofList region, d)

/-- all lines, stopping at the first failure (the loop of `build.rs` returns/panics there) -/
def parseLines (lines : List String) : Except String (List Line) := lines.mapM parseLine

/-- `region_dates.entry(region.to_string()).or_default().push(date)` -/
def addLine (db : Db) (r : String) (d : Date) : Db :=
  match db with
  | [] => [(r, [d])]
  | (k, ds) :: rest =>
    if r = k then (k, ds ++ [d]) :: rest
    else if r < k then (r, [d]) :: (k, ds) :: rest
    else (k, ds) :: addLine rest r d

/-- the `BTreeMap` after the loop -/
def group (lines : List Line) : Db := lines.foldl (fun db l => addLine db l.1 l.2) []

/-! ## writing the stream (`build.rs`) -/

/-- `region_dates.into_iter().map(|(region, dates)| { calendar = default; for date in dates
{ calendar.insert(date); } calendar.serialize(&mut output)?; Ok(region) })`: the bytes written to
the encoder, in region order.  `.error` = a panic inside `CompactCalendar::insert`. -/
def encodeDb : Db → Except String (List Nat)
  | [] => .ok []
  | (_, ds) :: rest =>
    match fromList ds with
    | .error e => .error e
    | .ok c =>
      match encodeDb rest with
      | .error e => .error e
      | .ok bs => .ok (serialize c ++ bs)

/-- `[String]::join(",")` on the characters -/
def joinComma : List (List Char) → List Char
  | [] => []
  | [w] => w
  | w :: w' :: ws => w ++ ',' :: joinComma (w' :: ws)

/-- `regions_order.join(",")`, the value of `HOLIDAYS_{PUBLIC,SCHOOL}_REGIONS` -/
def regionNames (db : Db) : String := String.ofList (joinComma (db.map (·.1.toList)))

/-! ## reading the stream (`Country::holidays`) -/

/-- `str::split(',')` on the characters: always at least one piece (`"".split(',')` yields `""`) -/
def splitComma : List Char → List (List Char)
  | [] => [[]]
  | c :: cs =>
    if c = ',' then [] :: splitComma cs
    else match splitComma cs with
      | [] => [[c]]              -- not reachable: `splitComma` never returns `[]`
      | w :: ws => (c :: w) :: ws

/-- the `HashMap<Country, Arc<CompactCalendar>>` as the list of the inserted pairs, in insertion order -/
abbrev CountryMap := List (String × CompactCalendar)

/-- the `filter_map` closure of `decode_holidays_db` pulled by `collect` for each region in turn:
the calendar is read BEFORE the region name is looked at, so the calendar of an unknown region is
consumed and dropped -/
def decodeRegions : List String → List Nat → Except String CountryMap
  | [], _ => .ok []            -- what is left in the stream is not looked at
  | region :: regions, data =>
    match deserialize data with
    | none => .error "opening-hours/src/localization/country/mod.rs:91"   -- expect("unable to parse holiday data")
    | some (calendar, data') =>
      match decodeRegions regions data' with
      | .error e => .error e
      | .ok tl =>
        match Country.fromStr region with
        | none => .ok tl                               -- `return None`
        | some country => .ok ((country, calendar) :: tl)

/-- `decode_holidays_db(countries, encoded_data)` on the bytes the `DeflateDecoder` serves -/
def decodeDb (countries : String) (data : List Nat) : Except String CountryMap :=
  decodeRegions ((splitComma countries.toList).map String.ofList) data

/-- `decode_holidays_db(countries, encoded_data)` on the embedded pair itself:
`DeflateDecoder::new(encoded_data)`, then the loop.  The Rust reader inflates lazily while
`deserialize` pulls bytes; the model inflates the whole stream first (an error of the decoder after
the last calendar would be an error here and unnoticed there; on a stream that inflates — what the
driver checks on the embedded bytes — the two read the same bytes). -/
def decodeHolidaysDb (countries : String) (encodedData : ByteArray) : Except String CountryMap :=
  match Inflate.inflateNat encodedData with
  | .error e => .error e
  | .ok data => decodeDb countries data

/-- `HashMap::get`: the last inserted pair with this key -/
def mapGet : CountryMap → String → Option CompactCalendar
  | [], _ => none
  | (k, v) :: tl, c =>
    match mapGet tl c with
    | some v' => some v'
    | none => if k = c then some v else none

/-- `DB.get(&self).cloned().unwrap_or_default()` -/
def lookup (m : CountryMap) (country : String) : CompactCalendar :=
  (mapGet m country).getD CompactCalendar.default

/-! ## the whole pipeline for one data file -/

/-- the lines of a data file ↦ the decoded map -/
def embeddedOfLines (ls : List String) : Except String CountryMap :=
  match parseLines ls with
  | .error e => .error e
  | .ok lines =>
    let db := group lines
    match encodeDb db with
    | .error e => .error e
    | .ok bytes => decodeDb (regionNames db) bytes

/-- data file text ↦ the decoded map (`LazyLock` static `DB_PUBLIC` / `DB_SCHOOL`) -/
def embedded (text : String) : Except String CountryMap := embeddedOfLines (bufLines text)

/-- `Country::holidays(self)`: `ContextHolidays::new(public, school)` -/
def holidays (dbPublic dbSchool : CountryMap) (country : String) : CompactCalendar × CompactCalendar :=
  (lookup dbPublic country, lookup dbSchool country)

/-! ## the evaluator's view (`Context::with_holidays`) -/

/-- the evaluator model reads a holiday calendar as the increasing list of its days
(`num_days_from_ce`), as the `ev.*` suites dump it: `calendar.iter().map(day_num)` -/
def calDays (c : CompactCalendar) : List Int :=
  match collect (iter c) with
  | .error _ => []
  | .ok ds => ds.filterMap fun d => OH.Model.Cal.ofYmd? d.year d.month d.day

/-- `Context::default().with_holidays(ContextHolidays::new(public, school))` -/
def ctxOfHolidays (h : CompactCalendar × CompactCalendar) : OH.Model.Ctx :=
  { OH.Model.Ctx.default with pub := calDays h.1, school := calDays h.2 }

end OH.Model.HolidayDb
