import OH.Model.Iter
import OH.Model.Tz
/-
Model of the Python binding `opening-hours-py` (property C12):
  src/lib.rs               `validate`, `PyOpeningHours::{new, normalize, state, is_open, is_closed,
                           is_unknown, next_change, intervals, __str__, __repr__}`
  src/types/datetime.rs    `DateTimeMaybeAware::{as_naive_local, map_date_limit, unwrap_or_now,
                           timezone, or_with_timezone, or_with_timezone_of}`
  src/types/location.rs    `impl Localize for PyLocation`
  src/types/iterator.rs    `RangeIterator::{new, map_prefered_timezone, __next__}`
  src/types/state.rs       `From<RuleKind> for State` (a renaming; `Kind` is used for both)
and of the generic layer of the core the binding goes through
  opening-hours/src/opening_hours.rs   `impl<L: Localize> OpeningHours<L>`:
                           `iter_range`, `iter_from`, `next_change`, `state`, `is_*`
  opening-hours/src/localization/localize.rs   `NoLocation`, `TzLocation` as `Localize`

Everything *below* that layer is a parameter (`Core`): the parser, `Display`, `normalize`, the
country table, the coordinate look-ups, chrono-tz (`naive_local`, `Localize::datetime`) and the
naive-level evaluator `iter_range_naive` (a lazily produced stream, `NStream`).  They are the subject
of other properties (C01–C11); for C12 the question is only what the binding does *with* them.  A
`Core` can be instantiated with the evaluator / tz models of `OH.Model`, or (as the correspondence
driver does) with the values the real core returned.

The generic `iter_range` is the one of /repo dfe1ade: the naive stream is FILTERED with the locale
(`locale.naive(locale.datetime(range.start)) < range.end`: a local span the clock skips entirely is
dropped), same-kind neighbours that only a dropped span separated are MERGED, and only then the
bounds are mapped with `locale.datetime` (`keepRange`, `filterRanges`, `OH.Model.Tz.mergeRanges`,
`mapRanges`; lazily for the first item: `nextKept`, `absorb`, `firstMerged`).  The binding does not
re-implement any of this: `PyLocation` is one more `Localize` instance the generic code is run with,
so a context with a zone gets the LOCALIZED stream (not "the wall-clock stream with the zone
attached"): a naive `02:30` inside the Paris gap of 2024-03-31 on `02:00-03:00` answers the NEXT
day's 02:00.  The merge functions on lists are those of `OH.Model.Tz` (C09's model of the same code
for `TzLocation` over a transition table); filter and map are restated here over an abstract
`Localize` record.

Not modelled (exercised by the CPython runs only): PyO3's conversions — `datetime` ↔
`NaiveDateTime` / `DateTime<Tz>` (`fold`, gaps, `tzinfo` without `key`), `ZoneInfo` ↔ `chrono_tz::Tz`,
`(float, float)` → `(f64, f64)`, the exception objects' messages.
Core-only imports.
-/
namespace OH.Model.Py
open OH.Model

/-! ## Floats, as far as `Coordinates::new` looks at them -/

/-- an `f64`: NaN, the infinities, or a finite value `num / den` (`den > 0`; a finite `f64` is
`± m · 2^e`, so `den` is a power of two — the model does not need that) -/
inductive Fl where
  | nan
  | negInf
  | posInf
  | fin (num : Int) (den : Nat)
  deriving DecidableEq, Repr, Inhabited

/-- IEEE `<`: false as soon as one side is NaN -/
def Fl.lt : Fl → Fl → Bool
  | .nan, _ => false
  | _, .nan => false
  | .negInf, .negInf => false
  | .negInf, _ => true
  | _, .negInf => false
  | .posInf, _ => false
  | _, .posInf => true
  | .fin a b, .fin c d => decide (a * (d : Int) < c * (b : Int))

def Fl.isNan : Fl → Bool
  | .nan => true
  | _ => false

def Fl.ofInt (n : Int) : Fl := .fin n 1

/-- a validated pair (`opening_hours::localization::Coordinates`) -/
structure Coords where
  lat : Fl
  lon : Fl
  deriving DecidableEq, Repr, Inhabited

/-- `Coordinates::new` = `sunrise::Coordinates::new`:
`if lat.is_nan() || lon.is_nan() || lat < -90.0 || lat > 90.0 || lon < -180.0 || lon > 180.0 { None }` -/
def coordsNew (lat lon : Fl) : Option Coords :=
  if lat.isNan || lon.isNan || lat.lt (Fl.ofInt (-90)) || (Fl.ofInt 90).lt lat
      || lon.lt (Fl.ofInt (-180)) || (Fl.ofInt 180).lt lon then none
  else some ⟨lat, lon⟩

/-! ## What the binding calls in the core -/

/-- outcome of `OpeningHours::parse` (`Err` = syntax error; a panic inside the parser — the `unwrap`
of `build_timespan`, defect D1, was one — reaches Python as `PanicException`) -/
inductive Parsed (E : Type) where
  | ok (e : E)
  | err
  | panic (site : String)

/-- `TzLocation<chrono_tz::Tz>` -/
structure TzLoc (Z : Type) where
  tz : Z
  coords : Option Coords
  deriving DecidableEq, Repr

/-- which core `Localize::event_time` is in force: that is all the naive-level evaluator sees of the
location -/
inductive EvLoc (Z : Type) where
  | noLocation
  | tzLocation (loc : TzLoc Z)
  deriving DecidableEq, Repr

/-- The items a lazy `Iterator<Item = DateTimeRange>` of the core yields when it is pulled: finitely
many (the iteration stops at `DATE_END` at the latest — C04), then its normal end (`done`) or a
panic at the next `next()` (`panic`).  What is AFTER the point up to which a consumer pulls does not
influence that consumer. -/
inductive NStream where
  | done
  | panic (site : String)
  | cons (iv : Interval) (rest : NStream)

/-- `.collect()`: a panic anywhere is a panic of the whole (the items before it are lost) -/
def NStream.collect : NStream → M (List Interval)
  | .done => .ok []
  | .panic p => .error p
  | .cons iv rest =>
    match rest.collect with
    | .error p => .error p
    | .ok l => .ok (iv :: l)

/-- `.next()` of the fresh iterator -/
def NStream.first : NStream → M (Option Interval)
  | .done => .ok none
  | .panic p => .error p
  | .cons iv _ => .ok (some iv)

/-- a complete stream with these items -/
def NStream.ofList : List Interval → NStream
  | [] => .done
  | iv :: rest => .cons iv (ofList rest)

structure Core where
  /-- `Arc<OpeningHoursExpression>` -/
  Expr : Type
  /-- `chrono_tz::Tz` -/
  Zone : Type
  /-- `ContextHolidays` -/
  Hol : Type
  /-- `OpeningHours::parse` -/
  parse : String → Parsed Expr
  /-- `Display for OpeningHours` -/
  display : Expr → String
  /-- `OpeningHoursExpression::normalize` -/
  normalize : Expr → Expr
  /-- `format!("{:?}", s)` of a `String` (Rust's `Debug` quoting: `\"`, `\\`, `\n`, `\u{…}` …) -/
  debugStr : String → String
  /-- `ContextHolidays::default()` -/
  holDefault : Hol
  /-- `iso.parse::<Country>()` then `Country::holidays`; `none` = `UnknownCountryCode` -/
  countryHolidays : String → Option Hol
  /-- `Context::from_coords(coords).holidays` -/
  coordsHolidays : Coords → Hol
  /-- the zone `TzLocation::from_coords(coords)` finds -/
  coordsZone : Coords → Zone
  /-- `dt.with_timezone(&tz).naive_local()` of the absolute instant `u` (UTC reading).  chrono's
  "Local time out of range" panic needs an instant within a day of `NaiveDateTime::MAX`; neither a
  Python `datetime` (year ≤ 9999) nor a value derived from `DATE_END` gets there. -/
  tzNaive : Zone → Int → Int
  /-- `Localize::datetime` of `TzLocation::new(tz)`: the absolute instant; the loop's `expect` is
  the panic site (C09 proves it unreachable up to `DATE_END`) -/
  tzDatetime : Zone → Int → M Int
  /-- `iter_range_naive(from, to)` (it clamps both bounds to `DATE_END` itself), as the lazy stream
  it is: the generic code pulls it item by item -/
  streamNaive : Expr → Hol → EvLoc Zone → Int → Int → NStream

variable (C : Core)

/-- `iter_range_naive(from, to)` collected -/
def Core.iterNaive (e : C.Expr) (h : C.Hol) (ev : EvLoc C.Zone) (a b : Int) : M (List Interval) :=
  (C.streamNaive e h ev a b).collect

/-- `iter_range_naive(from, to).next()` -/
def Core.firstNaive (e : C.Expr) (h : C.Hol) (ev : EvLoc C.Zone) (a b : Int) : M (Option Interval) :=
  (C.streamNaive e h ev a b).first

/-! ## `DateTimeMaybeAware` -/

/-- `DateTime<chrono_tz::Tz>`: an absolute instant and the zone it is expressed in -/
structure Aware (Z : Type) where
  utc : Int
  zone : Z
  deriving DecidableEq, Repr

inductive DateTimeMaybeAware (Z : Type) where
  | naive (n : Int)
  | aware (a : Aware Z)
  deriving DecidableEq, Repr

namespace DateTimeMaybeAware

/-- `as_naive_local`: "Drop eventual timezone information" (`date_time.naive_local()`: the reading in
the value's OWN zone) -/
def asNaiveLocal : DateTimeMaybeAware C.Zone → Int
  | .naive n => n
  | .aware a => C.tzNaive a.zone a.utc

/-- `map_date_limit`: "Just ensures that *DATE_LIMIT* is mapped to `None`" -/
def mapDateLimit (d : DateTimeMaybeAware C.Zone) : Option (DateTimeMaybeAware C.Zone) :=
  if asNaiveLocal C d = instEnd then none else some d

/-- `unwrap_or_now`; `now` = `Local::now().naive_local()` -/
def unwrapOrNow {Z : Type} (now : Int) (v : Option (DateTimeMaybeAware Z)) : DateTimeMaybeAware Z :=
  match v with
  | some d => d
  | none => .naive now

def timezone {Z : Type} : DateTimeMaybeAware Z → Option Z
  | .naive _ => none
  | .aware a => some a.zone

/-- `or_with_timezone`: `Naive(dt) => Aware(TzLocation::new(tz).datetime(dt))`, `Aware(_) => self` -/
def orWithTimezone (d : DateTimeMaybeAware C.Zone) (tz : C.Zone) : M (DateTimeMaybeAware C.Zone) :=
  match d with
  | .naive n =>
    match C.tzDatetime tz n with
    | .error p => .error p
    | .ok u => .ok (.aware ⟨u, tz⟩)
  | .aware _ => .ok d

/-- `or_with_timezone_of` -/
def orWithTimezoneOf (d other : DateTimeMaybeAware C.Zone) : M (DateTimeMaybeAware C.Zone) :=
  match other with
  | .naive _ => .ok d
  | .aware a => orWithTimezone C d a.zone

end DateTimeMaybeAware

/-! ## The generic layer of the core: `impl<L: Localize> OpeningHours<L>` -/

/-- the `Localize` trait, as the generic code uses it -/
structure Localize (DT : Type) where
  naive : DT → Int
  datetime : Int → M DT
  ev : EvLoc C.Zone

/-- `DateTimeRange<DT>` -/
structure Range (DT : Type) where
  start : DT
  stop : DT
  kind : Kind
  comments : List String

/-- `locale.datetime(curr.range.start)..locale.datetime(curr.range.end)` -/
def mapRange {DT : Type} (L : Localize C DT) (iv : Interval) : M (Range DT) :=
  match L.datetime iv.start with
  | .error p => .error p
  | .ok s =>
    match L.datetime iv.stop with
    | .error p => .error p
    | .ok t => .ok ⟨s, t, iv.kind, iv.comments⟩

def mapRanges {DT : Type} (L : Localize C DT) : List Interval → M (List (Range DT))
  | [] => .ok []
  | iv :: rest =>
    match mapRange C L iv with
    | .error p => .error p
    | .ok x =>
      match mapRanges L rest with
      | .error p => .error p
      | .ok xs => .ok (x :: xs)

/-! ### `iter_range`: filter → merge → map (/repo dfe1ade)
```
let mut naive_ranges = self.iter_range_naive(naive_from, naive_to)
    .filter(move |dtr| locale.naive(locale.datetime(dtr.range.start)) < dtr.range.end)
    .peekable();
std::iter::from_fn(move || {
    let mut curr = naive_ranges.next()?;
    while let Some(next) = naive_ranges.next_if(|next| next.kind == curr.kind && curr.range.end <= next.range.start) {
        curr.range.end = next.range.end;
    }
    Some(DateTimeRange::new_with_sorted_comments(
        locale.datetime(curr.range.start)..locale.datetime(curr.range.end), curr.kind, curr.comments))
})
```
For `NoLocation` / `PyLocation::Naive` (`naive ∘ datetime` = identity) the filter keeps every
non-empty range; for a zone it drops the local spans that a forward clock change skips entirely. -/

/-- the `filter` closure: `locale.naive(locale.datetime(range.start)) < range.end` -/
def keepRange {DT : Type} (L : Localize C DT) (iv : Interval) : M Bool :=
  match L.datetime iv.start with
  | .error p => .error p
  | .ok d => .ok (decide (L.naive d < iv.stop))

/-- `.filter(…)` on the collected naive stream -/
def filterRanges {DT : Type} (L : Localize C DT) : List Interval → M (List Interval)
  | [] => .ok []
  | iv :: rest =>
    match keepRange C L iv with
    | .error p => .error p
    | .ok k =>
      match filterRanges L rest with
      | .error p => .error p
      | .ok xs => .ok (if k then iv :: xs else xs)

/-- filter → merge (`OH.Model.Tz.mergeRanges`: `next.kind == curr.kind && curr.end <= next.start`,
the merged range keeps the comments of the first) → map, on a collected naive stream -/
def localizeRanges {DT : Type} (L : Localize C DT) (l : List Interval) : M (List (Range DT)) :=
  match filterRanges C L l with
  | .error p => .error p
  | .ok fl => mapRanges C L (Tz.mergeRanges fl)

/-- `iter_range(from, to)` collected.  (The Rust value is a lazy iterator: an error of the model
stands for a panic at some item; the items before it are not represented.) -/
def iterRange {DT : Type} (L : Localize C DT) (e : C.Expr) (h : C.Hol) (frm to : DT) : M (List (Range DT)) :=
  match C.iterNaive e h L.ev (min instEnd (L.naive frm)) (min instEnd (L.naive to)) with
  | .error p => .error p
  | .ok l => localizeRanges C L l

/-- `iter_from(from)` = `iter_range(from, locale.datetime(DATE_END))` -/
def iterFrom {DT : Type} (L : Localize C DT) (e : C.Expr) (h : C.Hol) (frm : DT) : M (List (Range DT)) :=
  match L.datetime instEnd with
  | .error p => .error p
  | .ok stop => iterRange C L e h frm stop

/-! the same pipeline pulled lazily for its first item only (`iter_from(t).next()` in `next_change`):
the naive stream is advanced just as far as the filter and the `next_if` loop need -/

/-- `naive_ranges.next()` / what `peek` computes: the next range that passes the filter, and the
stream after it -/
def nextKept {DT : Type} (L : Localize C DT) : NStream → M (Option (Interval × NStream))
  | .done => .ok none
  | .panic p => .error p
  | .cons iv rest =>
    match keepRange C L iv with
    | .error p => .error p
    | .ok true => .ok (some (iv, rest))
    | .ok false => nextKept L rest

/-- the `while let Some(next) = naive_ranges.next_if(…)` loop, from the stream after `curr`.
(`next_if` peeks: the range that ends the loop has been pulled and filtered.) -/
def absorb {DT : Type} (L : Localize C DT) (curr : Interval) : NStream → M Interval
  | .done => .ok curr
  | .panic p => .error p
  | .cons iv rest =>
    match keepRange C L iv with
    | .error p => .error p
    | .ok false => absorb L curr rest
    | .ok true =>
      if Tz.mergeable curr iv then absorb L ⟨curr.start, iv.stop, curr.kind, curr.comments⟩ rest
      else .ok curr

/-- first item of the filtered and merged stream, bounds not yet mapped:
`let mut curr = naive_ranges.next()?; while let Some(next) = … { curr.range.end = next.range.end }` -/
def firstMerged {DT : Type} (L : Localize C DT) (s : NStream) : M (Option Interval) :=
  match nextKept C L s with
  | .error p => .error p
  | .ok none => .ok none
  | .ok (some (curr, rest)) =>
    match absorb C L curr rest with
    | .error p => .error p
    | .ok c => .ok (some c)

/-- `iter_range(from, to).next()` -/
def firstOfRange {DT : Type} (L : Localize C DT) (e : C.Expr) (h : C.Hol) (frm to : DT) : M (Option (Range DT)) :=
  match firstMerged C L (C.streamNaive e h L.ev (min instEnd (L.naive frm)) (min instEnd (L.naive to))) with
  | .error p => .error p
  | .ok none => .ok none
  | .ok (some iv) =>
    match mapRange C L iv with
    | .error p => .error p
    | .ok r => .ok (some r)

/-- `next_change`: `iter_from(t).next()?`, then `if locale.naive(end) >= DATE_END { None }` -/
def nextChange {DT : Type} (L : Localize C DT) (e : C.Expr) (h : C.Hol) (t : DT) : M (Option DT) :=
  match L.datetime instEnd with
  | .error p => .error p
  | .ok stop =>
    match firstOfRange C L e h t stop with
    | .error p => .error p
    | .ok none => .ok none
    | .ok (some r) => if L.naive r.stop ≥ instEnd then .ok none else .ok (some r.stop)

/-- `state`: closed from `DATE_END` on, else the kind of the first item of
`iter_range_naive(naive, naive + 1 minute)` (closed if there is none) — purely on the wall clock: no
filter, no `datetime` -/
def state {DT : Type} (L : Localize C DT) (e : C.Expr) (h : C.Hol) (t : DT) : M Kind :=
  if L.naive t ≥ instEnd then .ok .closed
  else
    match C.firstNaive e h L.ev (L.naive t) (L.naive t + nsPerMin) with
    | .error p => .error p
    | .ok none => .ok .closed
    | .ok (some iv) => .ok iv.kind

/-! ### the core's own `Localize` instances -/

/-- `NoLocation` -/
def noLocation : Localize C Int := ⟨fun n => n, fun n => .ok n, .noLocation⟩

/-- `TzLocation<chrono_tz::Tz>` -/
def tzLocation (loc : TzLoc C.Zone) : Localize C (Aware C.Zone) where
  naive := fun a => C.tzNaive loc.tz a.utc
  datetime := fun n =>
    match C.tzDatetime loc.tz n with
    | .error p => .error p
    | .ok u => .ok ⟨u, loc.tz⟩
  ev := .tzLocation loc

/-- the same place read on its wall clock: `naive`/`datetime` of `NoLocation`, `event_time` of the
`TzLocation`.  Not a type of the core.  `state` of a context with a zone is `state` of this locale at
the wall-clock time (`state` never calls `datetime`); `next_change` / `intervals` are NOT those of
this locale since /repo dfe1ade: the generic `iter_range` consults `naive ∘ datetime`, which is the
identity here and is not for `PyLocation::Aware`. -/
def wallClock (loc : TzLoc C.Zone) : Localize C Int := ⟨fun n => n, fun n => .ok n, .tzLocation loc⟩

/-! ## `PyLocation` -/

inductive PyLocation (Z : Type) where
  | naive
  | aware (loc : TzLoc Z)
  deriving DecidableEq, Repr

/-- `impl Localize for PyLocation` -/
def pyLocalize (l : PyLocation C.Zone) : Localize C (DateTimeMaybeAware C.Zone) where
  naive := fun dt =>
    match l with
    | .naive => DateTimeMaybeAware.asNaiveLocal C dt      -- `NoLocation.naive(dt.as_naive_local())`
    | .aware loc =>
      match dt with
      | .naive n => n
      | .aware a => (tzLocation C loc).naive a            -- `loc.naive(dt)`
  datetime := fun n =>
    match l with
    | .naive => .ok (.naive n)                            -- `Naive(NoLocation.datetime(naive))`
    | .aware loc =>
      match (tzLocation C loc).datetime n with            -- `Aware(loc.datetime(naive))`
      | .error p => .error p
      | .ok a => .ok (.aware a)
  ev :=
    match l with
    | .naive => .noLocation                               -- `NoLocation.event_time(date, event)`
    | .aware loc => .tzLocation loc                       -- `loc.event_time(date, event)`

/-! ## `State` (src/types/state.rs) -/

/-- `From<RuleKind> for State` is a renaming (`Open ↦ OPEN` …): the model uses `Kind` for both.
`Display for State` / `#[pyclass(str)]`: -/
def stateStr : Kind → String
  | .open => "open"
  | .closed => "closed"
  | .unknown => "unknown"

/-- `#[derive(PartialOrd, Ord)]` on `enum State { OPEN, CLOSED, UNKNOWN }` (`#[pyclass(ord)]`):
declaration order — not the order of `RuleKind` in the core (`Open < Closed < Unknown` there too) -/
def stateRank : Kind → Nat
  | .open => 0
  | .closed => 1
  | .unknown => 2

/-! ## The constructor -/

/-- the arguments of `OpeningHours.__new__` after PyO3's extraction.  `autoCountry`/`autoTimezone`:
`none` = `None` was passed; an omitted argument arrives as `some true` (signature default). -/
structure Args (Z : Type) where
  oh : String
  timezone : Option Z
  country : Option String
  coords : Option (Fl × Fl)
  autoCountry : Option Bool
  autoTimezone : Option Bool

/-- what the Python caller sees raised, in the order the constructor checks -/
inductive PyErr where
  | invalidCoordinates
  | parserError
  | unknownCountry
  /-- `pyo3_runtime.PanicException` -/
  | panic (site : String)
  deriving DecidableEq, Repr

inductive HolidaySource where
  | none
  | country (iso : String)
  | fromCoords (c : Coords)
  deriving DecidableEq, Repr

inductive LocaleKind (Z : Type) where
  | naive
  | awareTz (tz : Z)
  | awareTzCoords (tz : Z) (c : Coords)
  | awareFromCoords (c : Coords)
  deriving DecidableEq, Repr

/-- the context a successful constructor call builds, as the recipe a Rust caller would follow -/
structure PyCtx where
  expr : C.Expr
  holidays : HolidaySource
  locale : LocaleKind C.Zone

/-- `coords.map(|(lat, lon)| Coordinates::new(lat, lon).ok_or_else(InvalidCoordinatesError)).transpose()?` -/
def checkCoords (c : Option (Fl × Fl)) : Except PyErr (Option Coords) :=
  match c with
  | none => .ok none
  | some (lat, lon) =>
    match coordsNew lat lon with
    | none => .error .invalidCoordinates
    | some c => .ok (some c)

/-- the `if let Some(iso_code) = country { … } else if let Some(coords) = coords { if auto_country … }` block -/
def pickHolidays (country : Option String) (coords : Option Coords) (autoCountry : Bool) :
    Except PyErr HolidaySource :=
  match country with
  | some iso =>
    match C.countryHolidays iso with
    | none => .error .unknownCountry
    | some _ => .ok (.country iso)
  | none =>
    match coords with
    | some c => if autoCountry then .ok (.fromCoords c) else .ok .none
    | none => .ok .none

/-- `match (timezone, coords, auto_timezone)` -/
def pickLocale {Z : Type} (timezone : Option Z) (coords : Option Coords) (autoTimezone : Bool) : LocaleKind Z :=
  match timezone, coords, autoTimezone with
  | some tz, none, _ => .awareTz tz
  | some tz, _, false => .awareTz tz
  | some tz, some c, _ => .awareTzCoords tz c
  | none, some c, true => .awareFromCoords c
  | _, _, _ => .naive

/-- `PyOpeningHours::new` -/
def ctor (a : Args C.Zone) : Except PyErr (PyCtx C) :=
  -- `auto_country.unwrap_or(true)` / `auto_timezone.unwrap_or(true)` are written at their use
  -- (no `let`, so that proofs see through)
  match checkCoords a.coords with
  | .error e => .error e
  | .ok coords =>
    match C.parse a.oh with
    | .panic s => .error (.panic s)
    | .err => .error .parserError
    | .ok e =>
      match pickHolidays C a.country coords (a.autoCountry.getD true) with
      | .error e => .error e
      | .ok hol => .ok ⟨e, hol, pickLocale a.timezone coords (a.autoTimezone.getD true)⟩

/-- `validate` -/
def validate (s : String) : Except PyErr Bool :=
  match C.parse s with
  | .ok _ => .ok true
  | .err => .ok false
  | .panic p => .error (.panic p)

/-! ### realisation of a `PyCtx` -/

/-- `Context::holidays` of the built context -/
def HolidaySource.hol : HolidaySource → C.Hol
  | .none => C.holDefault
  | .country iso => (C.countryHolidays iso).getD C.holDefault
  | .fromCoords c => C.coordsHolidays c

/-- the `TzLocation` of an aware locale: `TzLocation::new(tz)`, `….with_coords(coords)`,
`TzLocation::from_coords(coords)` -/
def LocaleKind.tzLoc? : LocaleKind C.Zone → Option (TzLoc C.Zone)
  | .naive => none
  | .awareTz tz => some ⟨tz, none⟩
  | .awareTzCoords tz c => some ⟨tz, some c⟩
  | .awareFromCoords c => some ⟨C.coordsZone c, some c⟩

def LocaleKind.pyLocation (l : LocaleKind C.Zone) : PyLocation C.Zone :=
  match LocaleKind.tzLoc? C l with
  | none => .naive
  | some loc => .aware loc

/-- `PyOpeningHours { inner: OpeningHours<PyLocation> }` -/
structure PyOH where
  expr : C.Expr
  hol : C.Hol
  locale : PyLocation C.Zone

def PyCtx.build (c : PyCtx C) : PyOH C := ⟨c.expr, HolidaySource.hol C c.holidays, LocaleKind.pyLocation C c.locale⟩

/-! ## The methods -/

namespace PyOH
variable {C}

/-- `normalize`: same context -/
def normalize (o : PyOH C) : PyOH C := ⟨C.normalize o.expr, o.hol, o.locale⟩

/-- `__str__` -/
def str (o : PyOH C) : String := C.display o.expr

/-- `__repr__`: `format!("OpeningHours({:?})", self.inner.to_string())` -/
def repr (o : PyOH C) : String := "OpeningHours(" ++ C.debugStr o.str ++ ")"

/-- `state(time)`, after `unwrap_or_now` -/
def state (o : PyOH C) (time : DateTimeMaybeAware C.Zone) : M Kind :=
  Py.state C (pyLocalize C o.locale) o.expr o.hol time

def isOpen (o : PyOH C) (time : DateTimeMaybeAware C.Zone) : M Bool :=
  match o.state time with
  | .error p => .error p
  | .ok k => .ok (k == .open)

def isClosed (o : PyOH C) (time : DateTimeMaybeAware C.Zone) : M Bool :=
  match o.state time with
  | .error p => .error p
  | .ok k => .ok (k == .closed)

def isUnknown (o : PyOH C) (time : DateTimeMaybeAware C.Zone) : M Bool :=
  match o.state time with
  | .error p => .error p
  | .ok k => .ok (k == .unknown)

/-- `next_change(time)`: `self.inner.next_change(time).map(|dt| dt.or_with_timezone_of(time))` -/
def nextChange (o : PyOH C) (time : DateTimeMaybeAware C.Zone) : M (Option (DateTimeMaybeAware C.Zone)) :=
  match Py.nextChange C (pyLocalize C o.locale) o.expr o.hol time with
  | .error p => .error p
  | .ok none => .ok none
  | .ok (some dt) =>
    match DateTimeMaybeAware.orWithTimezoneOf C dt time with
    | .error p => .error p
    | .ok r => .ok (some r)

/-- `RangeIterator::prefer_timezone`: `start.timezone().or_else(|| end.and_then(|dt| dt.timezone()))` -/
def preferTimezone {Z : Type} (start : DateTimeMaybeAware Z) (stop : Option (DateTimeMaybeAware Z)) : Option Z :=
  match start.timezone with
  | some z => some z
  | none =>
    match stop with
    | none => none
    | some d => d.timezone

/-- `map_prefered_timezone` -/
def mapPrefered (prefer : Option C.Zone) (d : DateTimeMaybeAware C.Zone) : M (DateTimeMaybeAware C.Zone) :=
  match prefer with
  | some tz => DateTimeMaybeAware.orWithTimezone C d tz
  | none => .ok d

/-- an item of the Python iterator: `(start, end or None, state, comments)` -/
structure Item (Z : Type) where
  start : DateTimeMaybeAware Z
  stop : Option (DateTimeMaybeAware Z)
  kind : Kind
  comments : List String

/-- `RangeIterator::__next__` on one range -/
def mapItem (prefer : Option C.Zone) (r : Range (DateTimeMaybeAware C.Zone)) : M (Item C.Zone) :=
  match mapPrefered prefer r.start with
  | .error p => .error p
  | .ok s =>
    match mapPrefered prefer r.stop with
    | .error p => .error p
    | .ok t => .ok ⟨s, DateTimeMaybeAware.mapDateLimit C t, r.kind, r.comments⟩

def mapItems (prefer : Option C.Zone) : List (Range (DateTimeMaybeAware C.Zone)) → M (List (Item C.Zone))
  | [] => .ok []
  | r :: rest =>
    match mapItem prefer r with
    | .error p => .error p
    | .ok x =>
      match mapItems prefer rest with
      | .error p => .error p
      | .ok xs => .ok (x :: xs)

/-- `intervals(start, end)` fully consumed; `start` after `unwrap_or_now`.
`RangeIterator::new`: `iter_range(start, end)` if an end is given, `iter_from(start)` otherwise. -/
def intervals (o : PyOH C) (start : DateTimeMaybeAware C.Zone) (stop : Option (DateTimeMaybeAware C.Zone)) :
    M (List (Item C.Zone)) :=
  let ranges :=
    match stop with
    | some e => iterRange C (pyLocalize C o.locale) o.expr o.hol start e
    | none => iterFrom C (pyLocalize C o.locale) o.expr o.hol start
  match ranges with
  | .error p => .error p
  | .ok l => mapItems (preferTimezone start stop) l

end PyOH

end OH.Model.Py
