/-
`Vec<T>` with an index, `Peekable` iterators and general `while` loops, as the fourth increment of the
translator `translators/rs2lean.py` (schedule.rs) uses them.  Fourth support library of
`OH/Generated/Arith.lean`, next to `RustInt.lean`, `RustSeq.lean`, `RustIter.lean`; hand-written, small, core-only.

* a `Vec<T>`, a consumed `vec.into_iter()` and a `Peekable` over it are a `List T` (front first);
  `it.peek()` is `List.head?`, `it.next()` is `iterNext` (RustSeq), `v.last()` is `vecLast`, `v.pop()` is
  `seqPop` (RustSeq), `v.push(x)` is `v ++ [x]`, `v.extend(it)` is `v ++ it`, `v.len()` is `vecLen`;
* `v[i]` (`i: usize`) is `vecIdx`, with the outcome `index out of bounds`; a write through `v[i]` is the
  bounds check followed by `vecSet`; `v.remove(i)` is `vecRemove` (the element and the shorter vector; its own
  panic outcome);
* `while c { body }` and a recursive call are definitions with an explicit `fuel : Nat` (the number of iterations /
  the depth of the recursion allowed); running out of it is the outcome `.error (.panic loopFuelExhausted)`, and the
  theorems show it is NOT reached for any fuel above a stated bound: termination is part of the statement;
* `filter_map` with a closure that writes to a captured variable is `filterMapS` (the captured state is threaded
  through the elements in order).
-/
import OH.Model.RustSeq
namespace OH.Model.RustInt

/-- the message of the outcome "the fuel of a `while` loop / of a recursion ran out" -/
def loopFuelExhausted : String := "rs2lean: the fuel of a loop or recursion ran out"

/-- `v.len()` -/
def vecLen {α : Type} (v : List α) : Int := v.length

/-- `v[i]` with `i: usize` -/
def vecIdx {α : Type} (v : List α) (i : Int) : R α :=
  match seqGet v i with
  | some x => .ok x
  | none => .error (.panic "index out of bounds")

/-- the write `v[i] = x` after its bounds check -/
def vecSet {α : Type} (v : List α) (i : Int) (x : α) : List α := v.set i.toNat x

/-- `v.remove(i)`: the element and the vector without it -/
def vecRemove {α : Type} (v : List α) (i : Int) : R (α × List α) :=
  match seqGet v i with
  | some x => .ok (x, v.eraseIdx i.toNat)
  | none => .error (.panic "removal index out of bounds")

/-- `v.last()` -/
def vecLast {α : Type} (v : List α) : Option α := v.getLast?

/-- `iter.filter_map(f).collect()` where `f` also updates a captured variable (state `σ`), in element order -/
def filterMapS {σ α β : Type} (f : σ → α → Option β × σ) : σ → List α → List β × σ
  | s, [] => ([], s)
  | s, x :: xs =>
    match f s x with
    | (none, s') => filterMapS f s' xs
    | (some y, s') => ((y :: (filterMapS f s' xs).1), (filterMapS f s' xs).2)

end OH.Model.RustInt
