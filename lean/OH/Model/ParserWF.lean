import OH.Model.Syntax
/-
`ParserWF`: the decidable range invariant of every expression the parser can build
(`opening-hours-syntax/src/parser.rs` + `grammar.pest`): years 1900–9999, months 1–12, days 1–31,
weeks 1–53, weekdays 0–6, steps ≥ 1 (and within `u8`/`u16`), nth arrays of length 5, times ≤ 48:00 with
start ≤ 24:00, event offsets within ±24:00, day offsets within `i64`, at least one time span per
rule, `repeats` (ignored by the evaluator) within 24:00, a non-empty rule list whose first rule is `Normal`.
That the parser only produces such expressions is a theorem about the parser model (C05); here it
is the hypothesis under which the evaluator theorems are stated.  Core-only imports.
-/
namespace OH.Model

def yearOk (y : Nat) : Bool := 1900 ≤ y && y ≤ 9999
def optYearOk : Option Nat → Bool
  | none => true
  | some y => yearOk y
def i64Ok (n : Int) : Bool := -9223372036854775808 ≤ n && n ≤ 9223372036854775807

def YearRange.wf (r : YearRange) : Bool := yearOk r.lo && yearOk r.hi && 1 ≤ r.step && r.step ≤ 65535

def DateSpec.wf : DateSpec → Bool
  | .fixed y m d => optYearOk y && 1 ≤ m && m ≤ 12 && 1 ≤ d && d ≤ 31
  | .easter y => optYearOk y

def WdayOffset.wf : WdayOffset → Bool
  | .none => true
  | .next w => w ≤ 6
  | .prev w => w ≤ 6

def DateOffset.wf (o : DateOffset) : Bool := o.wday.wf && i64Ok o.days

def MonthdayRange.wf : MonthdayRange → Bool
  | .month lo hi y => 1 ≤ lo && lo ≤ 12 && 1 ≤ hi && hi ≤ 12 && optYearOk y
  | .date s so e eo => s.wf && so.wf && e.wf && eo.wf

def WeekRange.wf (r : WeekRange) : Bool := 1 ≤ r.lo && r.lo ≤ 53 && 1 ≤ r.hi && r.hi ≤ 53 && 1 ≤ r.step && r.step ≤ 255

def WeekDayRange.wf : WeekDayRange → Bool
  | .fixed lo hi off ns ne => lo ≤ 6 && hi ≤ 6 && i64Ok off && ns.length == 5 && ne.length == 5
  | .holiday _ off => i64Ok off

def DaySelector.wf (s : DaySelector) : Bool :=
  s.year.all (·.wf) && s.monthday.all (·.wf) && s.week.all (·.wf) && s.weekday.all (·.wf)

def Time.wfStart : Time → Bool
  | .fixed m => m ≤ 1440
  | .variable _ off => -1440 ≤ off && off ≤ 1440

def Time.wfStop : Time → Bool
  | .fixed m => m ≤ 2880
  | .variable _ off => -1440 ≤ off && off ≤ 1440

def TimeSpan.wf (t : TimeSpan) : Bool := t.start.wfStart && t.stop.wfStop && (match t.repeats with | none => true | some r => 0 ≤ r && r ≤ 1440)

def Rule.wf (r : Rule) : Bool := r.day.wf && !r.time.isEmpty && r.time.all (·.wf)

/-- the invariant of parsed expressions -/
def ParserWF (e : Expr) : Bool :=
  !e.isEmpty && e.all (·.wf) && (match e with | r :: _ => r.op == .normal | [] => false)

end OH.Model
