import OH.Model.Peg
import OH.Generated.Grammar
import OH.Model.Syntax
import OH.Model.ExtendedTime
import OH.Model.SortedVec
/-
Model of `opening-hours-syntax/src/parser.rs`: `parse` = pest on the generated grammar, then the
`build_*` functions, one Lean definition per Rust function, same control flow.  `Pairs` iterators
are lists of trees (`next` = head, `peek` = head without consuming).  Every `expect`, `unwrap`,
`unreachable!` (`unexpected_token`), `assert!`/`assert_eq!`, array index and integer `parse().expect`
of the Rust code is an explicit `PErr.panic <site>` outcome; `Error::{Parser, Unsupported, Overflow,
InvalidExtendTime}` are the other constructors.  Integer types are ranges tests on `Nat`/`Int`.
Core-only imports (linked into the driver).
-/
namespace OH.Model.Parser
open OH.Model OH.Model.Peg OH.Generated.Grammar

inductive PErr where
  | parser                       -- `Error::Parser` (pest could not match)
  | unsupported (what : String)  -- `Error::Unsupported`
  | overflow                     -- `Error::Overflow`
  | exttime                      -- `Error::InvalidExtendTime`
  | panic (site : String)        -- any panic site of parser.rs
  deriving DecidableEq, Repr

abbrev PM := Except PErr
abbrev T := Tree PRule

def panic {α} (site : String) : PM α := .error (.panic site)

/-- `assert_eq!(pair.as_rule(), Rule::X)` -/
def assertRule (t : T) (r : PRule) : PM Unit :=
  if t.rule = r then .ok () else panic s!"assert_eq {r.name}"

/-- `unexpected_token(other, parent)` -/
def unexpected {α} (parent : PRule) : PM α := panic s!"unexpected_token in {parent.name}"

-- ------------------------------------------------------------------------------------------
-- integers: `str::parse::<uN>()`

def digitVal (c : Char) : Option Nat :=
  if '0' ≤ c ∧ c ≤ '9' then some (c.toNat - 48) else none

def natOfDigitsAux : List Char → Nat → Option Nat
  | [], acc => some acc
  | c :: cs, acc =>
    match digitVal c with
    | none => none
    | some d => natOfDigitsAux cs (10 * acc + d)

/-- decimal digits (at least one) to a number; Rust's `parse` also accepts one leading `+`, which no
grammar rule whose text is parsed as a number can contain -/
def natOfDigits : List Char → Option Nat
  | [] => none
  | cs => natOfDigitsAux cs 0

/-- `text.parse::<uN>().expect(site)` for a type with `bound` values -/
def parseBounded (site : String) (bound : Nat) (cs : List Char) : PM Nat :=
  match natOfDigits cs with
  | some n => if n < bound then .ok n else panic site
  | none => panic site

def u8Bound : Nat := 256
def u16Bound : Nat := 65536
def u64Bound : Nat := 18446744073709551616
def i64Bound : Nat := 9223372036854775808

-- ------------------------------------------------------------------------------------------
-- basic elements

inductive PlusOrMinus | plus | minus
  deriving DecidableEq, Repr

def buildPlusOrMinus (t : T) : PM PlusOrMinus := do
  assertRule t .plus_or_minus
  match t.kids with
  | [] => panic "empty plus or minus"
  | p :: _ =>
    match p.rule with
    | .plus => .ok .plus
    | .minus => .ok .minus
    | _ => unexpected .plus_or_minus

/-- `build_minute`: `Duration::minutes(text.parse::<i64>())`, in minutes -/
def buildMinute (t : T) : PM Int := do
  assertRule t .minute
  let n ← parseBounded "invalid minute" i64Bound t.text
  .ok (n : Int)

def buildExt (hour minutes : Nat) : PM Nat :=
  match ExtendedTime.new hour minutes with
  | some x => .ok x.mins
  | none => .error .exttime

/-- `build_hour_minutes` → minutes from midnight -/
def buildHourMinutes (t : T) : PM Nat := do
  assertRule t .hour_minutes
  match t.kids with
  | [] => .ok 1440                                   -- the literal "24:00"
  | h :: rest =>
    let hour ← parseBounded "invalid hour" u8Bound h.text
    match rest with
    | [] => panic "missing minutes"
    | m :: _ =>
      let minutes ← parseBounded "invalid minutes" u8Bound m.text
      buildExt hour minutes

def buildExtendedHourMinutes (t : T) : PM Nat := do
  assertRule t .extended_hour_minutes
  match t.kids with
  | [] => panic "missing hour"
  | h :: rest =>
    let hour ← parseBounded "invalid hour" u8Bound h.text
    match rest with
    | [] => panic "missing minutes"
    | m :: _ =>
      let minutes ← parseBounded "invalid minutes" u8Bound m.text
      buildExt hour minutes

/-- `build_hour_minutes_as_duration`, in minutes -/
def buildHourMinutesAsDuration (t : T) : PM Int := do
  assertRule t .hour_minutes
  match t.kids with
  | [] => .ok 1440
  | h :: rest =>
    let hour ← parseBounded "invalid hour" i64Bound h.text
    match rest with
    | [] => panic "missing minutes"
    | m :: _ =>
      let minutes ← parseBounded "invalid minutes" i64Bound m.text
      .ok ((hour : Int) * 60 + minutes)

/-- weekdays as in `OH.Model.Syntax`: 0 = Monday … 6 = Sunday -/
def buildWday (t : T) : PM Nat := do
  assertRule t .wday
  match t.kids with
  | [] => panic "empty week day"
  | p :: _ =>
    match p.rule with
    | .sunday => .ok 6
    | .monday => .ok 0
    | .tuesday => .ok 1
    | .wednesday => .ok 2
    | .thursday => .ok 3
    | .friday => .ok 4
    | .saturday => .ok 5
    | _ => unexpected .wday

def buildDaynum (t : T) : PM Nat := do
  assertRule t .daynum
  let d ← parseBounded "invalid month format" u8Bound t.text
  if d = 0 then .ok 1 else if d > 31 then .ok 31 else .ok d

def buildWeeknum (t : T) : PM Nat := do
  assertRule t .weeknum
  parseBounded "invalid weeknum format" u8Bound t.text

def buildMonth (t : T) : PM Nat := do
  assertRule t .month
  match t.kids with
  | [] => panic "empty month"
  | p :: _ =>
    match p.rule with
    | .january => .ok 1
    | .february => .ok 2
    | .march => .ok 3
    | .april => .ok 4
    | .may => .ok 5
    | .june => .ok 6
    | .july => .ok 7
    | .august => .ok 8
    | .september => .ok 9
    | .october => .ok 10
    | .november => .ok 11
    | .december => .ok 12
    | _ => unexpected .month

def buildYear (t : T) : PM Nat := do
  assertRule t .year
  parseBounded "invalid year format" u16Bound t.text

/-- `build_positive_number`: `parse::<u64>()` mapped to `Error::Overflow` -/
def buildPositiveNumber (t : T) : PM Nat := do
  assertRule t .positive_number
  match natOfDigits t.text with
  | some n => if n < u64Bound then .ok n else .error .overflow
  | none => .error .overflow

def buildCommentInner (t : T) : PM String := do
  assertRule t .comment_inner
  .ok (String.ofList t.text)

def buildComment (t : T) : PM String := do
  assertRule t .comment
  match t.kids with
  | [] => panic "empty comment"
  | c :: _ => buildCommentInner c

-- ------------------------------------------------------------------------------------------
-- time selector

def buildEvent (t : T) : PM TimeEvent := do
  assertRule t .event
  match t.kids with
  | [] => panic "empty event"
  | p :: _ =>
    match p.rule with
    | .dawn => .ok .dawn
    | .sunrise => .ok .sunrise
    | .sunset => .ok .sunset
    | .dusk => .ok .dusk
    | _ => unexpected .event

def buildVariableTime (t : T) : PM Time := do
  assertRule t .variable_time
  match t.kids with
  | [] => panic "empty variable time"
  | e :: rest =>
    let event ← buildEvent e
    match rest with
    | [] => .ok (.variable event 0)
    | s :: rest2 =>
      let sign ← buildPlusOrMinus s
      match rest2 with
      | [] => panic "missing hour minutes"
      | hm :: _ =>
        let mins ← buildHourMinutes hm
        -- `u16 -> i16`: `.try_into().expect("offset overflow")`
        if mins ≥ 32768 then panic "offset overflow" else
        match sign with
        | .plus => .ok (.variable event (mins : Int))
        | .minus => .ok (.variable event (-(mins : Int)))

def buildTime (t : T) : PM Time := do
  assertRule t .time
  match t.kids with
  | [] => panic "empty time"
  | inner :: _ =>
    match inner.rule with
    | .hour_minutes => do let m ← buildHourMinutes inner; .ok (.fixed m)
    | .variable_time => buildVariableTime inner
    | _ => unexpected .time

def buildExtendedTime (t : T) : PM Time := do
  assertRule t .extended_time
  match t.kids with
  | [] => panic "empty extended time"
  | inner :: _ =>
    match inner.rule with
    | .extended_hour_minutes => do let m ← buildExtendedHourMinutes inner; .ok (.fixed m)
    | .variable_time => buildVariableTime inner
    | _ => unexpected .extended_time

def buildTimespan (t : T) : PM TimeSpan := do
  assertRule t .timespan
  match t.kids with
  | [] => panic "empty timespan"
  | s :: rest =>
    let start ← buildTime s
    match rest with
    | [] => .error (.unsupported "point in time")
    | p :: rest2 =>
      let (openEnd, stop) ←
        (if p.rule = .timespan_plus then (.ok (true, Time.fixed 1440) : PM (Bool × Time))
         else do let e ← buildExtendedTime p; .ok (false, e))
      match rest2 with
      | [] => .ok ⟨start, stop, openEnd, none⟩
      | q :: rest3 =>
        let (openEnd2, repeats) ←
          (match q.rule with
           | .timespan_plus => (.ok (true, none) : PM (Bool × Option Int))
           | .minute => do let m ← buildMinute q; .ok (openEnd, some m)
           | .hour_minutes => do let m ← buildHourMinutesAsDuration q; .ok (openEnd, some m)
           | _ => unexpected .timespan)
        match rest3 with
        | [] => .ok ⟨start, stop, openEnd2, repeats⟩
        | _ :: _ => panic "assert pairs.next().is_none()"

def buildTimeSelector (t : T) : PM (List TimeSpan) := do
  assertRule t .time_selector
  t.kids.mapM buildTimespan

-- ------------------------------------------------------------------------------------------
-- weekday selector

def buildDayOffset (t : T) : PM Int := do
  assertRule t .day_offset
  match t.kids with
  | [] => panic "empty day offset"
  | s :: rest =>
    let sign ← buildPlusOrMinus s
    match rest with
    | [] => panic "missing value"
    | v :: _ =>
      let n ← buildPositiveNumber v
      if n ≥ i64Bound then .error .overflow else
      match sign with
      | .plus => .ok (n : Int)
      | .minus => .ok (-(n : Int))

def buildNth (t : T) : PM Nat := do
  assertRule t .nth
  parseBounded "invalid nth format" u8Bound t.text

inductive Sign | neg | pos
  deriving DecidableEq, Repr

/-- `(sign, start..=end)` -/
def buildNthEntry (t : T) : PM (Sign × Nat × Nat) := do
  assertRule t .nth_entry
  let (sign, rest) : Sign × List T :=
    match t.kids with
    | k :: rest => if k.rule = .nth_minus then (.neg, rest) else (.pos, k :: rest)
    | [] => (.pos, [])
  match rest with
  | [] => panic "empty nth entry"
  | a :: rest2 =>
    let start ← buildNth a
    match rest2 with
    | [] => .ok (sign, start, start)
    | b :: _ => do let stop ← buildNth b; .ok (sign, start, stop)

/-- `for i in start..=end { arr[usize::from(i - 1)] = true }` on a `[bool; 5]` -/
def setNth (arr : List Bool) (start stop : Nat) : PM (List Bool) :=
  if start > stop then .ok arr
  else if start = 0 then panic "nth: i - 1 underflows"
  else if stop > 5 then panic "nth: index out of bounds"
  else .ok ((List.range 5).map fun i => arr.getD i false || (start ≤ i + 1 && i + 1 ≤ stop))

def allFalse5 : List Bool := [false, false, false, false, false]
def allTrue5 : List Bool := [true, true, true, true, true]

def nthLoop : List T → List Bool → List Bool → PM (List Bool × List Bool × List T)
  | [], s, e => .ok (s, e, [])
  | k :: rest, s, e =>
    if k.rule = .nth_entry then do
      let (sign, a, b) ← buildNthEntry k
      match sign with
      | .neg => do let e' ← setNth e a b; nthLoop rest s e'
      | .pos => do let s' ← setNth s a b; nthLoop rest s' e
    else .ok (s, e, k :: rest)

def buildWeekdayRange (t : T) : PM WeekDayRange := do
  assertRule t .weekday_range
  match t.kids with
  | [] => panic "empty weekday range"
  | a :: rest =>
    let start ← buildWday a
    let (stop, rest2) ← (match rest with
      | b :: rest' =>
        if b.rule = .wday then do let e ← buildWday b; (.ok (e, rest') : PM (Nat × List T))
        else .ok (start, rest)
      | [] => .ok (start, []))
    let (ns, ne, rest3) ← nthLoop rest2 allFalse5 allFalse5
    let (ns, ne) := if !ns.contains true && !ne.contains true then (allTrue5, allTrue5) else (ns, ne)
    let offset ← (match rest3 with
      | o :: _ => buildDayOffset o
      | [] => .ok 0)
    .ok (.fixed start stop offset ns ne)

def buildHoliday (t : T) : PM WeekDayRange := do
  assertRule t .holiday
  match t.kids with
  | [] => panic "empty holiday"
  | k :: rest =>
    let kind ← (match k.rule with
      | .public_holiday => (.ok .pub : PM HolidayKind)
      | .school_holiday => .ok .school
      | _ => unexpected .holiday)
    let offset ← (match rest with
      | o :: _ => buildDayOffset o
      | [] => .ok 0)
    .ok (.holiday kind offset)

def buildWeekdaySelector (t : T) : PM (List WeekDayRange) := do
  assertRule t .weekday_selector
  let parts ← t.kids.mapM (fun (p : T) =>
    match p.rule with
    | .weekday_sequence => p.kids.mapM buildWeekdayRange
    | .holiday_sequence => p.kids.mapM buildHoliday
    | _ => (unexpected .weekday_sequence : PM (List WeekDayRange)))
  .ok parts.flatten

-- ------------------------------------------------------------------------------------------
-- week selector

def buildWeek (t : T) : PM WeekRange := do
  assertRule t .week
  match t.kids with
  | [] => panic "empty weeknum range"
  | a :: rest =>
    let start ← buildWeeknum a
    let (stop, rest2) ← (match rest with
      | b :: rest' => do let e ← buildWeeknum b; (.ok (some e, rest') : PM (Option Nat × List T))
      | [] => .ok (none, []))
    let step ← (match rest2 with
      | s :: _ => do let n ← buildPositiveNumber s; (.ok (some n) : PM (Option Nat))
      | [] => .ok none)
    let stepv := step.getD 1
    if stepv ≥ u8Bound then .error .overflow else
    .ok ⟨start, stop.getD start, stepv⟩

def buildWeekSelector (t : T) : PM (List WeekRange) := do
  assertRule t .week_selector
  t.kids.mapM buildWeek

-- ------------------------------------------------------------------------------------------
-- month selector

def buildDateOffset (t : T) : PM DateOffset := do
  assertRule t .date_offset
  let (wd, rest) ← (match t.kids with
    | s :: rest =>
      if s.rule = .plus_or_minus then do
        let sign ← buildPlusOrMinus s
        match rest with
        | [] => (panic "missing wday after sign" : PM (WdayOffset × List T))
        | w :: rest' => do
          let wday ← buildWday w
          match sign with
          | .plus => .ok (.next wday, rest')
          | .minus => .ok (.prev wday, rest')
      else .ok (.none, s :: rest)
    | [] => .ok (.none, []))
  let days ← (match rest with
    | o :: _ => buildDayOffset o
    | [] => .ok 0)
  .ok ⟨wd, days⟩

def buildDateFrom (t : T) : PM DateSpec := do
  assertRule t .date_from
  let (year, rest) ← (match t.kids with
    | y :: rest =>
      if y.rule = .year then do let v ← buildYear y; (.ok (some v, rest) : PM (Option Nat × List T))
      else .ok (none, y :: rest)
    | [] => .ok (none, []))
  match rest with
  | [] => panic "empty date (from)"
  | p :: rest2 =>
    match p.rule with
    | .variable_date => .ok (.easter year)
    | .month => do
      let month ← buildMonth p
      match rest2 with
      | [] => panic "missing day"
      | d :: _ => do let day ← buildDaynum d; .ok (.fixed year month day)
    | _ => unexpected .date_from

/-- `Month::next` -/
def monthNext (m : Nat) : Nat := m % 12 + 1

def buildDateTo (t : T) (frm : DateSpec) : PM DateSpec := do
  assertRule t .date_to
  match t.kids with
  | [] => panic "empty date (to)"
  | p :: _ =>
    match p.rule with
    | .date_from => buildDateFrom p
    | .daynum => do
      let daynum ← buildDaynum p
      match frm with
      | .easter _ => .error (.unsupported "Easter followed by a day number")
      | .fixed year month day =>
        if day > daynum then
          let month' := monthNext month
          if month' = 1 then
            match year with
            | some x => if x ≥ 9999 then .error .overflow else .ok (.fixed (some (x + 1)) month' daynum)
            | none => .ok (.fixed none month' daynum)
          else .ok (.fixed year month' daynum)
        else .ok (.fixed year month daynum)
    | _ => unexpected .date_to

def DateSpec.hasYear : DateSpec → Bool
  | .fixed (some _) _ _ => true
  | .easter (some _) => true
  | _ => false

def noOffset : DateOffset := ⟨.none, 0⟩

def buildMonthdayRange (t : T) : PM MonthdayRange := do
  assertRule t .monthday_range
  let (year, rest) ← (match t.kids with
    | y :: rest =>
      if y.rule = .year then do let v ← buildYear y; (.ok (some v, rest) : PM (Option Nat × List T))
      else .ok (none, y :: rest)
    | [] => .ok (none, []))
  match rest with
  | [] => panic "empty monthday range"
  | p :: rest2 =>
    match p.rule with
    | .month => do
      let start ← buildMonth p
      let stop ← (match rest2 with
        | q :: _ => buildMonth q
        | [] => .ok start)
      .ok (.month start stop year)
    | .date_from => do
      let start ← buildDateFrom p
      let (startOff, rest3) ← (match rest2 with
        | o :: rest' =>
          if o.rule = .date_offset then do let v ← buildDateOffset o; (.ok (v, rest') : PM (DateOffset × List T))
          else .ok (noOffset, o :: rest')
        | [] => .ok (noOffset, []))
      match rest3 with
      | [] => .ok (.date start startOff start startOff)
      | q :: rest4 =>
        let stop ← (match q.rule with
          | .date_to => buildDateTo q start
          | .monthday_range_plus =>
            if DateSpec.hasYear start then (.ok (.fixed (some 9999) 12 31) : PM DateSpec) else .ok (.fixed none 12 31)
          | _ => unexpected .monthday_range)
        let stopOff ← (match rest4 with
          | o :: _ => buildDateOffset o
          | [] => .ok noOffset)
        .ok (.date start startOff stop stopOff)
    | _ => unexpected .monthday_range

def buildMonthdaySelector (t : T) : PM (List MonthdayRange) := do
  assertRule t .monthday_selector
  t.kids.mapM buildMonthdayRange

-- ------------------------------------------------------------------------------------------
-- year selector

def buildYearRange (t : T) : PM YearRange := do
  assertRule t .year_range
  match t.kids with
  | [] => panic "empty year range"
  | a :: rest =>
    let start ← buildYear a
    let (stop, rest2) ← (match rest with
      | b :: rest' =>
        (match b.rule with
         | .year => do let v ← buildYear b; (.ok (some v, rest') : PM (Option Nat × List T))
         | .year_range_plus => .ok (some 9999, rest')
         | _ => unexpected .year_range)
      | [] => .ok (none, []))
    let step ← (match rest2 with
      | s :: _ => do let n ← buildPositiveNumber s; (.ok (some n) : PM (Option Nat))
      | [] => .ok none)
    let stepv := step.getD 1
    if stepv ≥ u16Bound then .error .overflow else
    .ok ⟨start, stop.getD start, stepv⟩

def buildYearSelector (t : T) : PM (List YearRange) := do
  assertRule t .year_selector
  t.kids.mapM buildYearRange

-- ------------------------------------------------------------------------------------------
-- selectors

structure Wide where
  year : List YearRange := []
  monthday : List MonthdayRange := []
  week : List WeekRange := []
  comment : Option String := none

def wideLoop : List T → Wide → PM Wide
  | [], w => .ok w
  | p :: rest, w =>
    match p.rule with
    | .year_selector => do let v ← buildYearSelector p; wideLoop rest { w with year := v }
    | .monthday_selector => do let v ← buildMonthdaySelector p; wideLoop rest { w with monthday := v }
    | .week_selector => do let v ← buildWeekSelector p; wideLoop rest { w with week := v }
    | .comment => do let v ← buildComment p; wideLoop rest { w with comment := some v }
    | _ => unexpected .wide_range_selectors

def buildWideRangeSelectors (t : T) : PM Wide := do
  assertRule t .wide_range_selectors
  wideLoop t.kids {}

def smallLoop : List T → List WeekDayRange → List TimeSpan → PM (List WeekDayRange × List TimeSpan)
  | [], w, s => .ok (w, s)
  | p :: rest, w, s =>
    match p.rule with
    | .weekday_selector => do let v ← buildWeekdaySelector p; smallLoop rest v s
    | .time_selector => do let v ← buildTimeSelector p; smallLoop rest w v
    | _ => unexpected .wide_range_selectors

def buildSmallRangeSelectors (t : T) : PM (List WeekDayRange × List TimeSpan) := do
  assertRule t .small_range_selectors
  smallLoop t.kids [] []

/-- `TimeSelector::new` -/
def timeSelectorNew (time : List TimeSpan) : List TimeSpan :=
  if time.isEmpty then [TimeSpan.fullDay] else time

def buildSelectorSequence (t : T) : PM (DaySelector × List TimeSpan × Option String) := do
  assertRule t .selector_sequence
  match t.kids with
  | [] => panic "empty selector"
  | p :: rest =>
    if p.rule = .always_open then
      .ok (⟨[], [], [], []⟩, [TimeSpan.fullDay], none)
    else do
      let (w, rest2) ←
        (if p.rule = .wide_range_selectors then do
            let w ← buildWideRangeSelectors p; (.ok (w, rest) : PM (Wide × List T))
         else .ok ({}, p :: rest))
      let (weekday, time) ← (match rest2 with
        | q :: _ => buildSmallRangeSelectors q
        | [] => .ok ([], []))
      .ok (⟨w.year, w.monthday, w.week, weekday⟩, timeSelectorNew time, w.comment)

-- ------------------------------------------------------------------------------------------
-- rule modifier, rule sequence, expression

def buildRulesModifierEnum (t : T) : PM Kind := do
  assertRule t .rules_modifier_enum
  match t.kids with
  | [] => panic "grammar error: empty rules modifier enum"
  | p :: _ =>
    match p.rule with
    | .rules_modifier_enum_closed => .ok .closed
    | .rules_modifier_enum_open => .ok .open
    | .rules_modifier_enum_unknown => .ok .unknown
    | _ => unexpected .rules_modifier_enum

def buildRulesModifier (t : T) : PM (Kind × Option String) := do
  assertRule t .rules_modifier
  match t.kids with
  | [] => panic "empty rules_modifier"
  | p :: rest =>
    let (kind, rest2) ←
      (if p.rule = .rules_modifier_enum then do
          let k ← buildRulesModifierEnum p; (.ok (k, rest) : PM (Kind × List T))
       else .ok (.open, p :: rest))
    match rest2 with
    | [] => .ok (kind, none)
    | c :: _ => do let s ← buildComment c; .ok (kind, some s)

def buildAnyRuleSeparator (t : T) : PM RuleOp := do
  assertRule t .any_rule_separator
  match t.kids with
  | [] => panic "empty rule separator"
  | p :: _ =>
    match p.rule with
    | .normal_rule_separator => .ok .normal
    | .additional_rule_separator => .ok .additional
    | .fallback_rule_separator => .ok .fallback
    | _ => unexpected .any_rule_separator

def buildRuleSequence (t : T) (op : RuleOp) : PM OH.Model.Rule := do
  assertRule t .rule_sequence
  match t.kids with
  | [] => panic "grammar error: empty rule sequence"
  | s :: rest =>
    let (day, time, extra) ← buildSelectorSequence s
    let (kind, comment) ← (match rest with
      | m :: _ => buildRulesModifier m
      | [] => .ok (.open, none))
    -- `comment.into_iter().chain(extra_comment).collect::<Vec<_>>().into()` (sort + dedup)
    let comments := SortedVec.fromVec (comment.toList ++ extra.toList)
    .ok ⟨day, time, kind, op, comments⟩

def buildOpeningHoursLoop : List T → PM (List OH.Model.Rule)
  | [] => .ok []
  | p :: rest =>
    match p.rule with
    | .rule_sequence => do
      let r ← buildRuleSequence p .normal
      let rs ← buildOpeningHoursLoop rest
      .ok (r :: rs)
    | .any_rule_separator =>
      match rest with
      | [] => panic "separator not followed by any rule"
      | q :: rest' => do
        -- Rust evaluates `build_rule_sequence(next, build_any_rule_separator(pair))`: arguments left to
        -- right, the `assert_eq!` inside build_rule_sequence runs after the separator is built
        let op ← buildAnyRuleSeparator p
        let r ← buildRuleSequence q op
        let rs ← buildOpeningHoursLoop rest'
        .ok (r :: rs)
    | _ => unexpected .opening_hours

def buildOpeningHours (t : T) : PM Expr := do
  assertRule t .opening_hours
  buildOpeningHoursLoop t.kids

/-- `parse(data)` on the characters of `data` -/
def parseChars (inp : List Char) : PM Expr :=
  match parseWith entry inp with
  | none => .error .parser
  | some [] => panic "grammar error: no opening_hours found"
  | some (t :: _) => buildOpeningHours t

def parse (s : String) : PM Expr := parseChars s.toList

end OH.Model.Parser
