/-
Model of the inflate side of RFC 1951 (raw DEFLATE, no zlib/gzip wrapper): what
`flate2::bufread::DeflateDecoder` (miniz_oxide) does with the bytes that `include_bytes!` embeds
for `Country::holidays` (property C10).  Written from the RFC in the shape of zlib's reference
decoder `contrib/puff/puff.c` (one Lean definition per puff function, same control flow, same
error sites):

* bit reader: bits of a byte are consumed from the least significant one (RFC 1951 §3.1.1);
  the state is the number `p` of bits consumed so far, bit `p` is bit `p % 8` of byte `p / 8`;
  multi-bit fields are little-endian (`bits`), Huffman codes are read most significant bit first
  (`decodeSym`);
* `construct` / `decodeSym`: canonical Huffman code from the code lengths (§3.2.2): `count[len]`
  and the symbols ordered by (length, symbol value);
* `codes`: literal/length + distance alphabet, extra bits, back-references (§3.2.5);
* `stored`, `fixed`, `dynamic`: the three block types (§3.2.4, §3.2.6, §3.2.7); block type 3 is an
  error;
* `inflate`: the block loop up to and including the block with `BFINAL = 1`; what follows the last
  block is not looked at (as `DeflateDecoder::read` stops at the end of the stream).

Every function is total and structurally recursive (no `partial`, no well-founded recursion, so the
kernel can evaluate it: `OH/Props/C10I.lean` decides one stream per block type).  The two loops whose
number of iterations depends on the data (`codes`: symbols of a block, `blocks`: blocks of the
stream) run on fuel.  Every iteration of `codes` consumes at least one bit (`decodeSym` returns `.ok`
only after reading one) and every iteration of `blocks` at least three (the header), so the fuel
`8 * size + 1` handed out by `inflate` cannot run out before the input does: PROVED,
`OH.Proofs.Inflate.inflate_ne_errFuel : inflate d ≠ .error errFuel` for every `d`.  Running out of
fuel is nevertheless an explicit error outcome (`errFuel`), never a result; the driver demands `.ok`
with exactly the expected bytes on the real embedded data, and the theorems of
`OH/Props/C10I.lean` have `inflate z = .ok …` as their hypothesis.

Error outcomes (all explicit, `Except String`): truncated input, block type 3, stored length check,
bad counts / over-subscribed or incomplete code / bad repeat in a dynamic header, missing
end-of-block code, code not in the table, length or distance symbol out of range, distance beyond the
start of the output.

Core-only imports: this file is linked into the compiled driver.
-/
namespace OH.Model.Inflate

def errTruncated : String := "inflate: truncated input"
def errBlockType : String := "inflate: bad block type 3"
def errStoredLen : String := "inflate: stored block length does not match its complement"
def errCounts : String := "inflate: dynamic block: too many length or distance codes"
def errCodeLenCode : String := "inflate: dynamic block: code length code not complete"
def errRepeat : String := "inflate: dynamic block: repeat without a previous length or beyond the counts"
def errNoEob : String := "inflate: dynamic block: no end-of-block code"
def errLitLenCode : String := "inflate: dynamic block: bad literal/length code lengths"
def errDistCode : String := "inflate: dynamic block: bad distance code lengths"
def errBadCode : String := "inflate: bit sequence is not a code of the table"
def errLenSym : String := "inflate: bad length symbol"
def errDistSym : String := "inflate: bad distance symbol"
def errTooFar : String := "inflate: distance too far back"
def errFuel : String := "inflate: out of fuel (not reachable: OH.Proofs.Inflate.inflate_ne_errFuel)"

/-! ## bit reader -/

/-- bit number `p` of the input (LSB-first inside a byte); `none` past the end -/
@[inline] def bitAt (d : ByteArray) (p : Nat) : Option Nat :=
  if h : p / 8 < d.size then some ((d[p / 8].toNat >>> (p % 8)) % 2) else none

/-- puff `bits(s, need)`: an `n`-bit little-endian field starting at bit `p` -/
def bits (d : ByteArray) (p : Nat) : Nat → Option Nat
  | 0 => some 0
  | n + 1 =>
    match bitAt d p with
    | none => none
    | some b =>
      match bits d (p + 1) n with
      | none => none
      | some v => some (b + 2 * v)

/-! ## canonical Huffman codes -/

/-- puff `struct huffman`: `count[len]` for `len = 0 … 15` and the symbols in canonical order -/
structure Huff where
  count : List Nat
  symbol : Array Nat

/-- puff `construct`: the table of a code given by its lengths (`ls[sym]`, 0 = unused), and
puff's return value `left`: `none` = over-subscribed, `some 0` = complete, `some (n+1)` = incomplete -/
def construct (ls : List Nat) : Huff × Option Nat :=
  let lens := List.range 16
  let count := lens.map fun len => (ls.filter (· == len)).length
  let symbol := (lens.drop 1).flatMap fun len =>
    ls.zipIdx.filterMap fun (l, s) => if l == len then some s else none
  let left := (count.drop 1).foldl (fun (left : Option Nat) c =>
    match left with
    | none => none
    | some l => if 2 * l < c then none else some (2 * l - c)) (some 1)
  (⟨count, symbol.toArray⟩, left)

/-- puff `decode` (the plain version): read one bit at a time, most significant code bit first;
`code`, `first` (first code of the current length) and `index` (of its symbol) as in puff.
Returns the symbol and the new bit position. -/
def decodeSym (d : ByteArray) (symbol : Array Nat) :
    (counts : List Nat) → (p code first index : Nat) → Except String (Nat × Nat)
  | [], _, _, _, _ => .error errBadCode
  | count :: counts, p, code, first, index =>
    match bitAt d p with
    | none => .error errTruncated
    | some b =>
      let code := code + b
      if code < first + count then .ok (symbol[index + (code - first)]!, p + 1)
      else decodeSym d symbol counts (p + 1) (2 * code) (2 * (first + count)) (index + count)

/-- one symbol of the code `h` at bit `p` -/
@[inline] def decode (d : ByteArray) (h : Huff) (p : Nat) : Except String (Nat × Nat) :=
  decodeSym d h.symbol (h.count.drop 1) p 0 0 0

/-! ## literals, lengths, distances -/

/-- RFC 1951 §3.2.5: base length and number of extra bits of length symbols 257 … 285 -/
def lbase : Array Nat :=
  #[3, 4, 5, 6, 7, 8, 9, 10, 11, 13, 15, 17, 19, 23, 27, 31, 35, 43, 51, 59, 67, 83, 99, 115, 131,
    163, 195, 227, 258]
def lext : Array Nat :=
  #[0, 0, 0, 0, 0, 0, 0, 0, 1, 1, 1, 1, 2, 2, 2, 2, 3, 3, 3, 3, 4, 4, 4, 4, 5, 5, 5, 5, 0]
/-- base distance and number of extra bits of distance symbols 0 … 29 -/
def dbase : Array Nat :=
  #[1, 2, 3, 4, 5, 7, 9, 13, 17, 25, 33, 49, 65, 97, 129, 193, 257, 385, 513, 769, 1025, 1537, 2049,
    3073, 4097, 6145, 8193, 12289, 16385, 24577]
def dext : Array Nat :=
  #[0, 0, 0, 0, 1, 1, 2, 2, 3, 3, 4, 4, 5, 5, 6, 6, 7, 7, 8, 8, 9, 9, 10, 10, 11, 11, 12, 12, 13, 13]

/-- copy `n` bytes from `dist` bytes back, one at a time (the source may overlap the destination) -/
def copyBack (out : ByteArray) (dist : Nat) : Nat → ByteArray
  | 0 => out
  | n + 1 => copyBack (out.push (out.get! (out.size - dist))) dist n

/-- puff `codes`: decode literal/length/distance symbols until the end-of-block code 256.
Returns the bit position after the block and the output so far. -/
def codes (d : ByteArray) (lencode distcode : Huff) :
    (fuel : Nat) → (p : Nat) → (out : ByteArray) → Except String (Nat × ByteArray)
  | 0, _, _ => .error errFuel
  | fuel + 1, p, out =>
    match decode d lencode p with
    | .error e => .error e
    | .ok (sym, p) =>
      if sym < 256 then codes d lencode distcode fuel p (out.push sym.toUInt8)
      else if sym == 256 then .ok (p, out)
      else
        let i := sym - 257
        if i ≥ 29 then .error errLenSym else
        match bits d p lext[i]! with
        | none => .error errTruncated
        | some eb =>
          let len := lbase[i]! + eb
          match decode d distcode (p + lext[i]!) with
          | .error e => .error e
          | .ok (dsym, p) =>
            if dsym ≥ 30 then .error errDistSym else
            match bits d p dext[dsym]! with
            | none => .error errTruncated
            | some eb =>
              let dist := dbase[dsym]! + eb
              if dist > out.size then .error errTooFar
              else codes d lencode distcode fuel (p + dext[dsym]!) (copyBack out dist len)

/-! ## the three block types -/

/-- copy `n` input bytes starting at byte `i` -/
def copyIn (d : ByteArray) (out : ByteArray) (i : Nat) : Nat → ByteArray
  | 0 => out
  | n + 1 => copyIn d (out.push (d.get! i)) (i + 1) n

/-- puff `stored` (§3.2.4): skip to the next byte boundary, `LEN`, `NLEN = ¬LEN`, `LEN` bytes -/
def stored (d : ByteArray) (p : Nat) (out : ByteArray) : Except String (Nat × ByteArray) :=
  let i := (p + 7) / 8
  if i + 4 > d.size then .error errTruncated else
  let len := (d.get! i).toNat + 256 * (d.get! (i + 1)).toNat
  let nlen := (d.get! (i + 2)).toNat + 256 * (d.get! (i + 3)).toNat
  if len + nlen != 65535 then .error errStoredLen
  else if i + 4 + len > d.size then .error errTruncated
  else .ok (8 * (i + 4 + len), copyIn d out (i + 4) len)

/-- §3.2.6: literal/length code lengths 8 (0–143), 9 (144–255), 7 (256–279), 8 (280–287) -/
def fixedLenLengths : List Nat :=
  List.replicate 144 8 ++ List.replicate 112 9 ++ List.replicate 24 7 ++ List.replicate 8 8
/-- 30 distance codes of 5 bits -/
def fixedDistLengths : List Nat := List.replicate 30 5

def fixedLen : Huff := (construct fixedLenLengths).1
def fixedDist : Huff := (construct fixedDistLengths).1

/-- puff `fixed` -/
def fixed (d : ByteArray) (fuel p : Nat) (out : ByteArray) : Except String (Nat × ByteArray) :=
  codes d fixedLen fixedDist fuel p out

/-- §3.2.7: the order in which the code length code lengths are stored -/
def clOrder : List Nat := [16, 17, 18, 0, 8, 7, 9, 6, 10, 5, 11, 4, 12, 3, 13, 2, 14, 1, 15]

/-- the `ncode` 3-bit code length code lengths, put at their positions of `clOrder` -/
def readClLengths (d : ByteArray) : (order : List Nat) → (n p : Nat) → Array Nat → Option (Array Nat × Nat)
  | [], _, p, acc => some (acc, p)
  | _ :: _, 0, p, acc => some (acc, p)
  | o :: order, n + 1, p, acc =>
    match bits d p 3 with
    | none => none
    | some v => readClLengths d order n (p + 3) (acc.set! o v)

/-- the `nlen + ndist` code lengths, run-length coded with the code length code (puff: the `while
(index < nlen + ndist)` loop): symbols 0–15 are lengths, 16 repeats the previous length 3–6 times,
17 / 18 give 3–10 / 11–138 zeros.  `acc` = the lengths read so far, LAST ONE FIRST, `n` = their
number.  Fuel = number of lengths still to read (each step yields ≥ 1). -/
def readLengths (d : ByteArray) (cl : Huff) (total : Nat) :
    (fuel : Nat) → (p : Nat) → (acc : List Nat) → (n : Nat) → Except String (List Nat × Nat)
  | 0, p, acc, n => if n ≥ total then .ok (acc.reverse, p) else .error errFuel
  | fuel + 1, p, acc, n =>
    if n ≥ total then .ok (acc.reverse, p) else
    match decode d cl p with
    | .error e => .error e
    | .ok (sym, p) =>
      if sym < 16 then readLengths d cl total fuel p (sym :: acc) (n + 1)
      else
        let (val?, nb, base) :=
          if sym == 16 then (acc.head?, 2, 3)
          else if sym == 17 then (some 0, 3, 3)
          else (some 0, 7, 11)
        match val? with
        | none => .error errRepeat                          -- 16 with no previous length
        | some val =>
          match bits d p nb with
          | none => .error errTruncated
          | some eb =>
            let rep := base + eb
            if n + rep > total then .error errRepeat
            else readLengths d cl total fuel (p + nb) (List.replicate rep val ++ acc) (n + rep)

/-- puff `dynamic` -/
def dynamic (d : ByteArray) (fuel p : Nat) (out : ByteArray) : Except String (Nat × ByteArray) :=
  match bits d p 5, bits d (p + 5) 5, bits d (p + 10) 4 with
  | some a, some b, some c =>
    let nlen := a + 257
    let ndist := b + 1
    let ncode := c + 4
    if nlen > 286 || ndist > 30 then .error errCounts else
    match readClLengths d clOrder ncode (p + 14) (Array.replicate 19 0) with
    | none => .error errTruncated
    | some (cls, p) =>
      match construct cls.toList with
      | (cl, some 0) =>                                     -- the code length code must be complete
        match readLengths d cl (nlen + ndist) (nlen + ndist) p [] 0 with
        | .error e => .error e
        | .ok (lengths, p) =>
          if lengths[256]! == 0 then .error errNoEob else
          let ll := lengths.take nlen
          let dl := lengths.drop nlen
          -- an incomplete code is accepted only when it has a single code (puff)
          let okCode (r : Huff × Option Nat) (n : Nat) : Bool :=
            match r.2 with
            | none => false
            | some 0 => true
            | some _ => n == r.1.count.head! + r.1.count[1]!
          let lc := construct ll
          let dc := construct dl
          if !okCode lc nlen then .error errLitLenCode
          else if !okCode dc ndist then .error errDistCode
          else codes d lc.1 dc.1 fuel p out
      | _ => .error errCodeLenCode
  | _, _, _ => .error errTruncated

/-! ## the stream -/

/-- puff's `do { … } while (!last)` loop: 1 bit `BFINAL`, 2 bits `BTYPE`, the block -/
def blocks (d : ByteArray) (symFuel : Nat) :
    (fuel : Nat) → (p : Nat) → (out : ByteArray) → Except String ByteArray
  | 0, _, _ => .error errFuel
  | fuel + 1, p, out =>
    match bits d p 1, bits d (p + 1) 2 with
    | some last, some type =>
      let r :=
        if type == 0 then stored d (p + 3) out
        else if type == 1 then fixed d symFuel (p + 3) out
        else if type == 2 then dynamic d symFuel (p + 3) out
        else .error errBlockType
      match r with
      | .error e => .error e
      | .ok (p, out) => if last == 1 then .ok out else blocks d symFuel fuel p out
    | _, _ => .error errTruncated

/-- raw DEFLATE stream ↦ the uncompressed bytes -/
def inflate (d : ByteArray) : Except String ByteArray :=
  blocks d (8 * d.size + 1) (8 * d.size + 1) 0 ByteArray.empty

/-- the same on the byte values the holiday data base model uses (`encodeDb : … List Nat`) -/
def inflateNat (d : ByteArray) : Except String (List Nat) :=
  match inflate d with
  | .error e => .error e
  | .ok out => .ok (out.data.toList.map UInt8.toNat)

/-- input given as a list of byte values (kernel-checked examples) -/
def inflateList (l : List Nat) : Except String (List Nat) :=
  inflateNat ⟨(l.map UInt8.ofNat).toArray⟩

end OH.Model.Inflate
