import OH.Model.Syntax
import OH.Model.Print
/-
`printableOut`: the decidable description of the expressions the parser can build, under which the
print → parse round trip is proved (`OH.Proofs.Syn.PrintableOut`, OH/Proofs/SynRule9.lean).
This is a CORE-ONLY restatement for the driver (which evaluates it on every expression the real parser
returns); OH/Props/C06.lean proves `printableOut e = OH.Proofs.Syn.PrintableOut e` for every `e`.
-/
namespace OH.Model.Printable
open OH.Model

def i64Bound : Nat := 9223372036854775808

def okOffset (off : Int) : Bool := decide (-1440 ≤ off) && decide (off ≤ 1440)
def okStart : Time → Bool
  | .fixed m => decide (m ≤ 1440)
  | .variable _ off => okOffset off
def okStop : Time → Bool
  | .fixed m => decide (m ≤ 2880)
  | .variable _ off => okOffset off
def okSpan (t : TimeSpan) : Bool :=
  okStart t.start && okStop t.stop &&
    (match t.repeats with
     | none => true
     | some r => !t.openEnd && decide (0 ≤ r) && decide (r ≤ 1440))
def okTimes (ts : List TimeSpan) : Bool := !ts.isEmpty && ts.all okSpan

def okRange : WeekDayRange → Bool
  | .holiday .pub off => decide (off.natAbs < i64Bound)
  | .holiday .school off => decide (off = 0)
  | .fixed lo hi off ns ne =>
    decide (lo ≤ 6) && decide (hi ≤ 6) && decide (ns.length = 5) && decide (ne.length = 5)
      && decide (off.natAbs < i64Bound)
      && (ns.contains true || ne.contains true)
      && (decide (lo = hi) || (!ns.contains false && !ne.contains false && decide (off = 0)))
def isHoliday : WeekDayRange → Bool
  | .holiday _ _ => true
  | .fixed .. => false
def okShape (ws : List WeekDayRange) : Bool :=
  match ws with
  | [] => false
  | w :: _ =>
    if isHoliday w then (ws.dropWhile isHoliday).all (fun x => !isHoliday x)
    else (ws.dropWhile (fun x => !isHoliday x)).all isHoliday
def okWeekdays (ws : List WeekDayRange) : Bool := okShape ws && ws.all okRange

def okYear (y : YearRange) : Bool :=
  decide (1900 ≤ y.lo ∧ y.lo ≤ 9999 ∧ 1900 ≤ y.hi ∧ y.hi ≤ 9999 ∧ 1 ≤ y.step ∧ y.step < 65536)
def okWeek (w : WeekRange) : Bool :=
  decide (1 ≤ w.lo ∧ w.lo ≤ 53 ∧ 1 ≤ w.hi ∧ w.hi ≤ 53 ∧ 1 ≤ w.step ∧ w.step < 256)
def okYearOpt : Option Nat → Bool
  | none => true
  | some y => decide (1900 ≤ y ∧ y ≤ 9999)
def okDate : DateSpec → Bool
  | .fixed y m d => okYearOpt y && decide (1 ≤ m ∧ m ≤ 12 ∧ 1 ≤ d ∧ d ≤ 31)
  | .easter y => okYearOpt y
def okWdayOffset : WdayOffset → Bool
  | .none => true
  | .next w => decide (w ≤ 6)
  | .prev w => decide (w ≤ 6)
def okDateOffset (o : DateOffset) : Bool :=
  okWdayOffset o.wday && decide (o.days.natAbs < i64Bound)
def okMonthday : MonthdayRange → Bool
  | .month lo hi y => decide (1 ≤ lo ∧ lo ≤ 12 ∧ 1 ≤ hi ∧ hi ≤ 12) && okYearOpt y
  | .date s so e eo => okDate s && okDateOffset so && okDate e && okDateOffset eo
def yearStepOk (ys : List YearRange) (ms : List MonthdayRange) : Bool :=
  match ys.getLast?, ms.head? with
  | some y, some m => decide (y.step = 1) || !Print.startsWithYear m
  | _, _ => true
def okWide (d : DaySelector) : Bool :=
  d.year.all okYear && d.monthday.all okMonthday && d.week.all okWeek && yearStepOk d.year d.monthday

def okCommentChars (c : List Char) : Bool := !c.isEmpty && !c.contains '"'
def okComment (s : String) : Bool := okCommentChars s.toList
def okRuleSmall (r : Rule) : Bool :=
  okTimes r.time && (r.day.weekday.isEmpty || okWeekdays r.day.weekday) && r.comments.all okComment
def okRule (r : Rule) : Bool := okRuleSmall r && okWide r.day

/-- the expressions covered by the round-trip theorem: a non-empty list of rules, the first one
`Normal`, each rule within what the parser can build -/
def printableOut (e : Expr) : Bool :=
  !e.isEmpty && (match e with | r :: _ => r.op == .normal | [] => false) && e.all okRule

end OH.Model.Printable
