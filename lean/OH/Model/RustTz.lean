import OH.Model.RustInt
import OH.Model.Calendar
/-
The chrono items the fifth increment of the translator `translators/rs2lean.py` (region `[tz extension]`,
`opening-hours/src/localization/localize.rs`) lets translated functions use that do NOT depend on a time zone.
Sixth support library of `OH/Generated/Arith.lean`; hand-written, small, core-only.

* a `NaiveDateTime` is its nanosecond count on the scale of `OH.Model.Instant` (day number × 86 400·10⁹ + nanosecond of
  the day), an `Int`; a value of the type satisfies `NDT_MIN ≤ n ≤ NDT_MAX`; `==` `<` `>` .. are those of the counts
  (chrono derives them lexicographically on (date, time): the same order).  Leap-second representations (a nanosecond
  field ≥ 10⁹) are NOT modelled;
* a `NaiveTime` is its nanosecond count since midnight, a `NaiveDate` its day number (only passed on);
* a `TimeDelta` is its nanosecond count; `TimeDelta::seconds(k)` / `minutes(k)` for a LITERAL `k` (the translator
  accepts nothing else, so their `out of bounds` panic is not an outcome);
* `LocalResult<T>` (= `MappedLocalTime<T>`) with `earliest()` / `latest()` copied from chrono 0.4.39
  `src/offset/mod.rs:98/111`;
* `Peekable<Filter<I, P>>` over a source `I` given by the list of the items it still yields is `FilterPeek`: the rest of
  the source and the peek slot; the predicate `P` may panic (`α → R Bool`) and is applied LAZILY, when `next` /
  `next_if` pull items, as in Rust; `next` / `next_if` are copied from std (`core::iter::Peekable`, `Filter`);
* `generic Tz: TimeZone`: the type `Tz`, `DateTime<Tz>` and the trait methods called on them are PARAMETERS of the
  generated definitions (nothing is said about them here; their meaning in the transition-table model is
  `OH/Model/RustTzZone.lean`).

TRUSTED: that chrono computes this (`checked_add_signed` = `None` exactly outside `NaiveDateTime::MIN..=MAX`;
`NaiveDateTime -= TimeDelta` = `checked_sub_signed(..).expect("`NaiveDateTime - TimeDelta` overflowed")`,
chrono 0.4.39 `src/naive/datetime/mod.rs:1840`).  The same status as `OH/Model/RustChrono.lean`.
-/
namespace OH.Model.RustInt

/-- chrono's `LocalResult<T>` / `MappedLocalTime<T>` -/
inductive LocalResult (α : Type) where
  | none
  | single (t : α)
  | ambiguous (earliest latest : α)

/-- `match self { Single(t) | Ambiguous(t, _) => Some(t), _ => None }` -/
def LocalResult.earliest {α : Type} : LocalResult α → Option α
  | .none => Option.none
  | .single t => some t
  | .ambiguous t _ => some t

/-- `match self { Single(t) | Ambiguous(_, t) => Some(t), _ => None }` -/
def LocalResult.latest {α : Type} : LocalResult α → Option α
  | .none => Option.none
  | .single t => some t
  | .ambiguous _ t => some t

/-- `Peekable<Filter<I, P>>`: what the source `I` still yields, and `Peekable::peeked` -/
structure FilterPeek (α : Type) where
  src : List α
  peeked : Option (Option α)

/-- `Filter::next` = `self.iter.find(&mut self.predicate)`: the first remaining item satisfying `p`, and the rest -/
def filterNext {α : Type} (p : α → R Bool) : List α → R (Option α × List α)
  | [] => .ok (Option.none, [])
  | x :: xs => bnd (p x) fun b => if b then .ok (some x, xs) else filterNext p xs

/-- `Peekable::next`: `match self.peeked.take() { Some(v) => v, None => self.iter.next() }` -/
def FilterPeek.next {α : Type} (p : α → R Bool) (it : FilterPeek α) : R (Option α × FilterPeek α) :=
  match it.peeked with
  | some v => .ok (v, { it with peeked := Option.none })
  | Option.none => bnd (filterNext p it.src) fun r => .ok (r.1, ⟨r.2, Option.none⟩)

/-- `Peekable::next_if(func)`:
`match self.next() { Some(m) if func(&m) => Some(m), other => { self.peeked = Some(other); None } }` -/
def FilterPeek.next_if {α : Type} (p : α → R Bool) (f : α → Bool) (it : FilterPeek α) : R (Option α × FilterPeek α) :=
  bnd (FilterPeek.next p it) fun r =>
  match r.1 with
  | some m => if f m then .ok (some m, r.2) else .ok (Option.none, { r.2 with peeked := some (some m) })
  | Option.none => .ok (Option.none, { r.2 with peeked := some Option.none })

namespace TzChrono

/-- `NaiveDateTime::MIN` / `MAX` as nanosecond counts -/
def NDT_MIN : Int := OH.Model.Cal.minDay * 86400000000000
def NDT_MAX : Int := OH.Model.Cal.maxDay * 86400000000000 + 86399999999999

/-- `TimeDelta::seconds(k)`, `TimeDelta::minutes(k)` for a literal `k` -/
def seconds (k : Int) : Int := k * 1000000000
def minutes (k : Int) : Int := k * 60000000000

/-- `NaiveDateTime::checked_add_signed(self, rhs: TimeDelta) -> Option<NaiveDateTime>` -/
def ndt_checked_add_signed (n d : Int) : Option Int :=
  if n + d < NDT_MIN ∨ n + d > NDT_MAX then Option.none else some (n + d)

/-- `naive -= delta` / `naive - delta`: `checked_sub_signed(rhs).expect(..)` -/
def ndt_sub (n d : Int) : R Int :=
  if n - d < NDT_MIN ∨ n - d > NDT_MAX then .error (.panic "`NaiveDateTime - TimeDelta` overflowed") else .ok (n - d)

/-- a `NaiveTime` is its nanosecond count since midnight; `NaiveTime::from_hms_opt(hour, min, sec)` (`u32`s) -/
def from_hms_opt (h m s : Int) : Option Int :=
  if h ≥ 24 ∨ m ≥ 60 ∨ s ≥ 60 then Option.none else some ((h * 3600 + m * 60 + s) * 1000000000)

/-- `NaiveDateTime::time()`: the nanosecond of the day -/
def ndt_time (n : Int) : Int := n % 86400000000000

end TzChrono

end OH.Model.RustInt
