import OH.Generated.Countries
/-
Model of `opening-hours/src/localization/country/generated.rs` (`enum Country` and its `ALL`, `name`,
`iso_code`, `Display`, `FromStr`) on top of the tables of `OH.Generated.Countries`, which
`translators/countries2lean.py` regenerates from the Rust file on every run.

A `Country` value is named by its variant identifier (a `String` of `Countries.variants`).
A Rust `match` is read top-down, first matching arm wins: `List.lookup`.
Core-only imports (linked into the driver).
-/
namespace OH.Model.Country
open OH.Generated

/-- is `v` the identifier of a variant of `enum Country` -/
def isVariant (v : String) : Bool := Countries.variants.contains v

/-- `<Country as FromStr>::from_str(s)`: the first arm of `match s { "AD" => Ok(Self::AD), … }` whose
pattern equals `s`; `none` = the last arm `_ => Err(UnknownCountryCode(s.to_string()))` -/
def fromStr (s : String) : Option String := Countries.fromStrArms.lookup s

/-- `Country::iso_code(self)`: the arm of `match self { Self::AD => "AD", … }` for the variant.
(`none` = no arm: rustc rejects such a file; `OH.Props.C10.isoCode_total` shows it does not happen.) -/
def isoCode (v : String) : Option String := Countries.isoCodeArms.lookup v

/-- `Country::name(self)` -/
def name (v : String) : Option String := Countries.nameArms.lookup v

/-- `impl Display for Country`: `write!(f, "{}", self.name())` -/
def display (v : String) : Option String := if Countries.displayIsName then name v else none

/-- `Country::ALL` -/
def all : List String := Countries.all

end OH.Model.Country
