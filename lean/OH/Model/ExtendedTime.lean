/-
Model of `opening-hours-syntax/src/extended_time.rs`.

One Lean definition per Rust function, same control flow.  The Rust struct holds two `u8`;
here they are `Nat` and every integer conversion of the Rust code (`u8 -> u16`, `u16 -> i16`,
`checked_add` on `i16`, `try_into` to `u16`/`u8`) is written out as the range test it performs.
Core-only imports: this file is linked into the compiled driver.
-/
namespace OH.Model

structure ExtendedTime where
  hour : Nat
  minute : Nat
  deriving DecidableEq, Repr, Inhabited

namespace ExtendedTime

/-- `ExtendedTime::new(hour: u8, minute: u8)` -/
def new (hour minute : Nat) : Option ExtendedTime :=
  if hour > 48 || minute > 59 || (hour == 48 && minute > 0) then none
  else some ⟨hour, minute⟩

def midnight00 : ExtendedTime := ⟨0, 0⟩
def midnight24 : ExtendedTime := ⟨24, 0⟩
def midnight48 : ExtendedTime := ⟨48, 0⟩

/-- `mins_from_midnight(self) -> u16` -/
def mins (t : ExtendedTime) : Nat := t.minute + 60 * t.hour

/-- `from_mins_from_midnight(minute: u16)`: `(minute / 60).try_into::<u8>().ok()?` then `new`. -/
def fromMins (m : Nat) : Option ExtendedTime :=
  if m / 60 > 255 then none else new (m / 60) (m % 60)

/-- `add_minutes(self, minutes: i16)`: `i16::checked_add`, then `try_into::<u16>`. -/
def addMinutes (t : ExtendedTime) (d : Int) : Option ExtendedTime :=
  let s : Int := (t.mins : Int) + d
  if s < -32768 ∨ s > 32767 then none        -- checked_add overflow
  else if s < 0 then none                     -- try_into::<u16>
  else fromMins s.toNat

/-- `add_hours(self, hours: i8)`: `i16` addition (cannot overflow), `try_into::<u8>`, then `new`. -/
def addHours (t : ExtendedTime) (d : Int) : Option ExtendedTime :=
  let s : Int := (t.hour : Int) + d
  if s < 0 ∨ s > 255 then none else new s.toNat t.minute

/-- derived `Ord` on `(hour, minute)`: lexicographic -/
def lt (a b : ExtendedTime) : Bool :=
  a.hour < b.hour || (a.hour == b.hour && a.minute < b.minute)

def le (a b : ExtendedTime) : Bool := !(lt b a)

def digitChar (n : Nat) : Char := Char.ofNat (48 + n)

/-- `{:02}` on a `u8` -/
def pad2 (n : Nat) : List Char :=
  if n < 10 then ['0', digitChar n]
  else if n < 100 then [digitChar (n / 10), digitChar (n % 10)]
  else [digitChar (n / 100), digitChar (n / 10 % 10), digitChar (n % 10)]

/-- `Display`: `{:02}:{:02}` -/
def display (t : ExtendedTime) : List Char := pad2 t.hour ++ [':'] ++ pad2 t.minute

/-- `TryInto<NaiveTime>`: `NaiveTime::from_hms_opt(hour, minute, 0)`; result as seconds from midnight -/
def toNaiveTime (t : ExtendedTime) : Option Nat :=
  if t.hour < 24 ∧ t.minute < 60 then some (t.hour * 3600 + t.minute * 60) else none

/-- `From<NaiveTime>` (seconds from midnight `< 86400`; sub-minute part dropped) -/
def fromNaiveTime (secs : Nat) : ExtendedTime := ⟨secs / 3600, secs / 60 % 60⟩

end ExtendedTime
end OH.Model
