import OH.Model.RustInt
/-
Bounded iteration as the translator `translators/rs2lean.py` uses it (support library of
`OH/Generated/Arith.lean`, next to `OH/Model/RustInt.lean`; hand-written, small, core-only).

A Rust iterator chain over a container of the subset

    SOURCE.iter() [.enumerate() | .copied() | .skip(n)]* [.map(f)]* .find_map(g) | .sum()
    (start..).zip(SOURCE.iter() [.skip(n)]*) [.map(f)]* .find_map(g)

is lazy: the consumer pulls one element at a time through all the adaptors.  The elements of the
source (an array `[T; N]`, a slice `a[i..]` of it, a `VecDeque<T>` front first) are a `List`; the adaptors that only rearrange the
elements are list functions (`enumerate`, `List.drop`, `copied` is the identity: `&T` is `T`); the
closures, which may leave the straight line (overflow, panic, `?`), are composed by the translator into
ONE function of the element `α → R β` in the order of the chain, and the consumer runs it on the
elements in order and stops where Rust stops:

* `find_map`: at the first `Some` — the closure is NOT run on the later elements (a panic there is
  not reached) — or at the first `.error` outcome;
* `sum` (`impl Sum for u32` …: `fold(0, |a, b| a + b)`, the addition inherits the overflow checks of
  the calling crate): at the first `.error` outcome of the closure or of the checked addition.
-/
namespace OH.Model.RustInt

/-- `iter.enumerate()` from the counter `n` on: `(n, a₀), (n + 1, a₁), …` (a `usize` counter: a Rust
container never has more than `usize::MAX` elements, the counter cannot overflow) -/
def enumFrom {α : Type} (n : Int) : List α → List (Int × α)
  | [] => []
  | a :: as => (n, a) :: enumFrom (n + 1) as

/-- `iter.enumerate()` -/
def enumerate {α : Type} (l : List α) : List (Int × α) := enumFrom 0 l

/-- `&a[start..]`: the elements from `start` on; `start > len` is the panic of the slice index -/
def sliceFrom {α : Type} (l : List α) (start : Int) : R (List α) :=
  if start.toNat ≤ l.length then .ok (l.drop start.toNat)
  else .error (.panic "range start index out of range for slice")

/-- `iter.find_map(f)`: `f` on the elements in order, up to the first `Some` (or the first outcome
that is not a value) -/
def findMapM {α β : Type} (f : α → R (Option β)) : List α → R (Option β)
  | [] => .ok none
  | a :: as =>
    bnd (f a) fun r =>
    match r with
    | some b => .ok (some b)
    | none => findMapM f as

/-- `fold(acc, |a, b| a + b)` over `iter.map(f)` with the checked addition of `t` -/
def sumFromM {α : Type} (t : Ty) (site : String) (f : α → R Int) : Int → List α → R Int
  | acc, [] => .ok acc
  | acc, a :: as =>
    bnd (f a) fun v =>
    bnd (add t site acc v) fun acc' =>
    sumFromM t site f acc' as

/-- `iter.map(f).sum()` on the integer type `t` -/
def sumM {α : Type} (t : Ty) (site : String) (f : α → R Int) (l : List α) : R Int :=
  sumFromM t site f 0 l

/-- `(start..).zip(iter).find_map(f)` with a `RangeFrom<T>` counter of the integer type `t`:
`Zip::next` pulls the counter first, and `RangeFrom::next` computes the successor of the value it
yields (`Step::forward`: an overflow panic where the calling crate has overflow checks, like `+`) — also
when the other iterator turns out to be exhausted -/
def findMapZipFromM {α β : Type} (t : Ty) (site : String) (f : Int × α → R (Option β)) : Int → List α → R (Option β)
  | start, [] => bnd (add t site start 1) fun _ => .ok none
  | start, a :: as =>
    bnd (add t site start 1) fun next =>
    bnd (f (start, a)) fun r =>
    match r with
    | some b => .ok (some b)
    | none => findMapZipFromM t site f next as

end OH.Model.RustInt
