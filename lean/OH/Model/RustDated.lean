import OH.Model.RustInt
/-
Support library of `OH/Generated/Arith.lean` for the fourth extension of `translators/rs2lean.py`
(the dated-range helpers of `opening-hours/src/filter/date_filter.rs`; DESIGN §8.9).  Hand-written,
small, core-only.

* `saturatingNeg t a`: `a.saturating_neg()` on the signed type `t` (`T::MIN` ↦ `T::MAX`, otherwise `-a`);
* `firstOrRevFindMapM o f lo hi`: the value of

      o.into_iter().chain((lo..hi).rev().filter_map(f)).next()

  `Chain::next` pulls the first iterator (`option::IntoIter`: the payload of `o`, once), and only when that
  is exhausted the second one; `Rev<Range<T>>::next` is `Range::next_back`: `hi - 1, hi - 2, …, lo`
  (nothing when `hi ≤ lo`; the bounds were evaluated when the range was built, `end - 1` is computed only
  when `start < end`, so it cannot overflow); `FilterMap::next` runs `f` on these in turn up to the first
  `Some`.  `f` is the translated closure: an outcome of `f` that is not a value ends the whole expression
  with that outcome, later elements are not run.
-/
namespace OH.Model.RustInt

/-- `a.saturating_neg()` on a signed type -/
def saturatingNeg (t : Ty) (a : Int) : Int := if a ≤ t.min then t.max else -a

/-- `(lo..lo+n).rev().filter_map(f).next()`: `f (lo + n - 1)`, …, `f lo`, up to the first `Some` -/
def revFindMapM {β : Type} (f : Int → R (Option β)) (lo : Int) : Nat → R (Option β)
  | 0 => .ok none
  | n + 1 =>
    bnd (f (lo + n)) fun r =>
    match r with
    | some b => .ok (some b)
    | none => revFindMapM f lo n

/-- `o.into_iter().chain((lo..hi).rev().filter_map(f)).next()` -/
def firstOrRevFindMapM {β : Type} (o : Option β) (f : Int → R (Option β)) (lo hi : Int) : R (Option β) :=
  match o with
  | some b => .ok (some b)
  | none => revFindMapM f lo (hi - lo).toNat

end OH.Model.RustInt
