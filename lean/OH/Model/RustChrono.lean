import OH.Model.RustInt
import OH.Model.Calendar
/-
The chrono items the translator `translators/rs2lean.py` lets translated functions call ("EXTERNs with a Lean
meaning", table `CHRONO` of the translator), given the meaning they have in the calendar model
`OH/Model/Calendar.lean`: a `NaiveDate` is its day number (`Cal.Day`, an `Int`; a value of the type satisfies
`Cal.minDay ≤ d ≤ Cal.maxDay`), a `Weekday` is its number of days from Monday (0 … 6), a `TimeDelta` built by
`try_days` is its number of whole days, `date.iso_week()` is the date itself (its two accessors are `isoWeek` /
`isoYear`).  Machine integers are `Int`s as everywhere in `OH/Model/RustInt.lean`.

TRUSTED: that chrono computes this.  It is the same statement as "modelled, not verified: chrono
(OH/Model/Calendar.lean)" of the trusted base of C01, tied by the `chr.*` differential suite (every day 1900..9999
in the thorough tier); nothing is added to it except the spelling of each call below.
Core-only imports; hand-written, small.
-/
namespace OH.Model.RustChrono
open OH.Model.Cal

namespace Chrono

/-- `NaiveDate::MIN` / `NaiveDate::MAX` -/
def DATE_MIN : Int := minDay
def DATE_MAX : Int := maxDay

/-- `crate::opening_hours::DATE_END.date()` (the constant itself is tied by `tables2lean.py`) -/
def DATE_END : Int := dateEnd

/-- `crate::opening_hours::DATE_START.date()` (tied by `tables2lean.py` as well) -/
def DATE_START : Int := dateStart

/-- `NaiveDate::from_ymd_opt(year: i32, month: u32, day: u32)` -/
def from_ymd_opt (y m d : Int) : Option Int := ofYmd? y m.toNat d.toNat

/-- `NaiveDate::from_isoywd_opt(year: i32, week: u32, weekday: Weekday)` -/
def from_isoywd_opt (y w wd : Int) : Option Int := ofIsoYwd? y w.toNat wd.toNat

/-- `Datelike::weekday()` as the number of days from Monday -/
def weekday (d : Int) : Int := (Cal.weekday d : Nat)

/-- `Weekday::days_since(self, other) -> u32`: `if lhs < rhs { 7 + lhs - rhs } else { lhs - rhs }` on the
numbers of days from Monday -/
def days_since (a b : Int) : Int := if a < b then 7 + a - b else a - b

/-- `Datelike::year() -> i32`, `month() -> u32`, `day() -> u32` -/
def year (d : Int) : Int := Cal.year d
def month (d : Int) : Int := (Cal.month d : Nat)
def day (d : Int) : Int := (Cal.dayOfMonth d : Nat)

/-- `date.iso_week()` is kept as the date; `IsoWeek::week() -> u32`, `IsoWeek::year() -> i32` -/
def iso_week (d : Int) : Int := d
def iso_week_week (d : Int) : Int := (Cal.isoWeek d : Nat)
def iso_week_year (d : Int) : Int := Cal.isoYear d

/-- `TimeDelta::try_days(days: i64)` (`Duration` is an alias): `None` beyond ±(i64::MAX / 1000 / 86 400) days;
the delta is kept as its number of days -/
def try_days (n : Int) : Option Int := if n < -106751991167 ∨ n > 106751991167 then none else some n

/-- `date.checked_add_signed(delta)`: `None` when the result is not representable -/
def checked_add_signed (d delta : Int) : Option Int := addDays? d delta

/-- `succ_opt()` / `pred_opt()` / `with_year(year: i32)` -/
def succ_opt (d : Int) : Option Int := succ? d
def pred_opt (d : Int) : Option Int := pred? d
def with_year (d y : Int) : Option Int := withYear? d y

/-- `date.checked_add_months(Months::new(1))` and `date.with_day(1)`, translated in exactly these shapes (rs2lean.py,
[week extension]): the calendar model's `addOneMonth?` (day clamped to the length of the next month, `None` past
`NaiveDate::MAX`) and `firstOfMonth` (the first of a month always exists) -/
def checked_add_months_one (d : Int) : Option Int := addOneMonth? d
def with_day_one (d : Int) : Option Int := some (firstOfMonth d)

end Chrono

end OH.Model.RustChrono
