/-
C18 — the shared mutable state of the library, modelled as once-cells.

The evaluator model (`OH/Model/Eval.lean`, `Iter.lean`) is a Lean function, hence pure by
construction.  What is left to model for "the same answer across calls, clones and threads" is
the state the Rust code shares between calls and threads.  The source inventory
(`translators/shared_state_inventory.py` → `OH/Generated/SharedState.lean`, tied to `knownInventory`
below by `OH.Props.C18.inventory_matches`) finds exactly six process-wide items in the non-test
sources of the four crates, all of them *once-cells*:

  cell            Rust item                                   visible in (Rust scoping)
  dbPublic        `static DB_PUBLIC: LazyLock<HashMap<..>>`   body of `Country::holidays`
  dbSchool        `static DB_SCHOOL: LazyLock<HashMap<..>>`   body of `Country::holidays`
  boundaries      `static BOUNDARIES: LazyLock<..>`           body of `Country::try_from_coords`
  tzNameFinder    `static TZ_NAME_FINDER: LazyLock<..>`       body of `TzLocation::from_coords`
  tzByName        `static TZ_BY_NAME: LazyLock<HashMap<..>>`  body of `TzLocation::from_coords`
  warnEaster      `static WARN_EASTER: Once`                  module `parser` (one `call_once`, logs)

`LazyLock<T>` has no other read access than `Deref` = `LazyLock::force`: *reading is forcing*.  So an
evaluation is modelled as a program (`Prog`) whose only effect is `read c`, and the initialiser of a
cell is a closure over `include_bytes!`/`env!` constants and `chrono_tz::TZ_VARIANTS` only, i.e. a
constant `decode c` (`Tables.decode`).

Two semantics are given:
 * `run`: an evaluation runs to completion atomically (the history of the property text is a list of
   `(thread id, args)` steps);
 * `Thread.step` / `runSchedule`: a small-step semantics in which threads interleave *between every
   two reads* and in which initialisation is NOT atomic: a thread that finds a cell `uninit` first
   computes its own candidate (`initialising`), other threads may do the same meanwhile, and when it
   comes back only the first candidate published is kept (`LazyLock`/`Once` are in fact stricter:
   the losers block instead of computing; the model covers both).

Not modelled (named in NOTES.md): the memory model and data races inside the dependencies
(`std::sync::LazyLock` itself, `tzf-rs`, `country-boundaries`, `flate2`, the `log` facade).
Core-only imports.
-/
namespace OH.Model.Purity

/-- the once-cells of the library, one constructor per `static` item of the inventory -/
inductive CellId
  | dbPublic | dbSchool | boundaries | tzNameFinder | tzByName | warnEaster
  deriving DecidableEq, Repr, Inhabited

def CellId.all : List CellId :=
  [.dbPublic, .dbSchool, .boundaries, .tzNameFinder, .tzByName, .warnEaster]

/-- the Rust identifier of each cell (used by the inventory tie) -/
def CellId.rustName : CellId → String
  | .dbPublic => "DB_PUBLIC" | .dbSchool => "DB_SCHOOL" | .boundaries => "BOUNDARIES"
  | .tzNameFinder => "TZ_NAME_FINDER" | .tzByName => "TZ_BY_NAME" | .warnEaster => "WARN_EASTER"

/-- `LazyLock<T>` / `Once` seen by an observer: not yet initialised, or initialised for good -/
inductive Cell (α : Type)
  | uninit
  | init (v : α)
  deriving DecidableEq, Repr

/-- The type of each table and the value its initialiser closure computes.  The closures take no
argument and read only data embedded at compile time, so `decode` is a constant per cell. -/
structure Tables where
  T : CellId → Type
  decode : (c : CellId) → T c

section
variable (D : Tables)

/-- system state = the tuple of cells -/
abbrev State := (c : CellId) → Cell (D.T c)

/-- process start: nothing decoded yet -/
def allUninit : State D := fun _ => .uninit

/-- every table decoded -/
def allInit : State D := fun c => .init (D.decode c)

variable {D}

def State.set (st : State D) (c : CellId) (x : Cell (D.T c)) : State D :=
  fun c' => if h : c' = c then h ▸ x else st c'

/-- `LazyLock::force` (= `Deref`), atomic form: the value read and the state afterwards -/
def force (st : State D) (c : CellId) : State D × D.T c :=
  match st c with
  | .init v => (st, v)
  | .uninit => (st.set c (.init (D.decode c)), D.decode c)

/-- An evaluation: a computation whose only effect is reading (= forcing) cells. -/
inductive Prog (D : Tables) (ρ : Type) where
  | ret (r : ρ)
  | read (c : CellId) (k : D.T c → Prog D ρ)

/-- what the program computes when every table is decoded: `f args allInit` of the property text,
the answer of a single sequential call in a process where everything has been used before -/
def Prog.pureRun {ρ : Type} : Prog D ρ → ρ
  | .ret r => r
  | .read c k => (k (D.decode c)).pureRun

/-- atomic evaluation from a state: forces the cells it reads, in program order -/
def run {ρ : Type} : Prog D ρ → State D → State D × ρ
  | .ret r, st => (st, r)
  | .read c k, st => let (st', v) := force st c; run (k v) st'

/-- the cells a program forces (along the path taken with decoded tables), in order -/
def Prog.touched {ρ : Type} : Prog D ρ → List CellId
  | .ret _ => []
  | .read c k => c :: (k (D.decode c)).touched

/-- forcing a list of cells, in order (a "first use order") -/
def forceList (st : State D) : List CellId → State D
  | [] => st
  | c :: cs => forceList (force st c).1 cs

/-- A history of atomic evaluation steps `(thread id, args)`, in the order in which they take effect;
returns the final state and the answer of each step.  The thread id plays no role in the semantics:
that is the point. -/
def runHistory {A ρ : Type} (eval : A → Prog D ρ) : List (Nat × A) → State D → State D × List ρ
  | [], st => (st, [])
  | (_, a) :: h, st =>
    let (st', r) := run (eval a) st
    let (st'', rs) := runHistory eval h st'
    (st'', r :: rs)

/-- running a list of programs one after the other -/
def runAll {ρ : Type} : List (Prog D ρ) → State D → State D × List ρ
  | [], st => (st, [])
  | p :: ps, st =>
    let (st', r) := run p st
    let (st'', rs) := runAll ps st'
    (st'', r :: rs)

/-! ### small-step semantics with racing initialisers -/

/-- a thread: running a program, or in the middle of initialising cell `c` with its own candidate
value `cand` (computed, not yet published) -/
inductive Thread (D : Tables) (ρ : Type) where
  | running (p : Prog D ρ)
  | initialising (c : CellId) (cand : D.T c) (k : D.T c → Prog D ρ)

/-- one step of one thread against the shared state -/
def Thread.step {ρ : Type} (st : State D) : Thread D ρ → State D × Thread D ρ
  | .running (.ret r) => (st, .running (.ret r))                 -- finished: stutters
  | .running (.read c k) =>
    match st c with
    | .init v => (st, .running (k v))                            -- fast path of `force`
    | .uninit => (st, .initialising c (D.decode c) k)            -- runs the closure, publishes later
  | .initialising c cand k =>
    match st c with
    | .uninit => (st.set c (.init cand), .running (k cand))      -- first to publish: wins
    | .init v => (st, .running (k v))                            -- lost the race: keeps the winner's value

/-- the answer of a finished thread -/
def Thread.result? {ρ : Type} : Thread D ρ → Option ρ
  | .running (.ret r) => some r
  | _ => none

structure Config (D : Tables) (ρ : Type) where
  st : State D
  threads : List (Thread D ρ)

/-- thread `i` makes one step (an id out of range does nothing) -/
def Config.step {ρ : Type} (cfg : Config D ρ) (i : Nat) : Config D ρ :=
  match cfg.threads[i]? with
  | none => cfg
  | some t => let (st', t') := t.step cfg.st; ⟨st', cfg.threads.set i t'⟩

/-- an interleaving = the list of thread ids in the order in which they step -/
def runSchedule {ρ : Type} (cfg : Config D ρ) : List Nat → Config D ρ
  | [] => cfg
  | i :: is => runSchedule (cfg.step i) is

def Config.start {ρ : Type} (st : State D) (ps : List (Prog D ρ)) : Config D ρ :=
  ⟨st, ps.map .running⟩

/-! ### values, clones -/

/-- `Arc<T>`: an allocation (identified by `ptr`) holding a value.  `Arc::clone` returns the same
allocation; the library never looks at the identity (no `Arc::ptr_eq`/`as_ptr`/`get_mut`/`make_mut`
in the sources: checked by the inventory), it only dereferences. -/
structure Arc (α : Type) where
  ptr : Nat
  val : α

def Arc.clone {α : Type} (a : Arc α) : Arc α := a

/-- `OpeningHours<L>`: `expr: Arc<OpeningHoursExpression>`, `ctx: Context<L>` -/
structure OHValue (E C : Type) where
  expr : Arc E
  ctx : C

/-- `#[derive(Clone)]`: `Arc::clone` of the expression, `Context::clone` (derived, field-wise) -/
def OHValue.clone {E C : Type} (v : OHValue E C) : OHValue E C := ⟨v.expr.clone, v.ctx⟩

/-- an evaluation entry point (`state`, `next_change`, `schedule_at`, `iter_range`, …) takes `&self`
and reads the expression through `Deref` only -/
def evalOH {E C A ρ : Type} (f : E → C → A → Prog D ρ) (v : OHValue E C) (a : A) : Prog D ρ :=
  f v.expr.val v.ctx a

end

/-! ### which API function can touch which cell

Five of the six statics are *function-local* items: Rust scoping makes them unnameable outside the
body of the enclosing function, so the table below is a syntactic fact, re-checked at every run by the
inventory (`scope` column).  `WARN_EASTER` is private to module `parser` and used once. -/

inductive Api
  | countryHolidays        -- `Country::holidays`
  | countryTryFromCoords   -- `Country::try_from_coords`
  | tzLocationFromCoords   -- `TzLocation::from_coords`
  | contextFromCoords      -- `Context::from_coords` = the three above
  | parse                  -- `opening_hours_syntax::parse` / `OpeningHours::parse`
  | evaluate               -- `state`, `is_open`, …, `next_change`, `schedule_at`, `iter_range`, `iter_from`
  deriving DecidableEq, Repr

def Api.cells : Api → List CellId
  | .countryHolidays => [.dbPublic, .dbSchool]
  | .countryTryFromCoords => [.boundaries]
  | .tzLocationFromCoords => [.tzNameFinder, .tzByName]
  | .contextFromCoords => [.boundaries, .dbPublic, .dbSchool, .tzNameFinder, .tzByName]
  | .parse => [.warnEaster]
  | .evaluate => []

/-- the Rust function whose body is the scope of each cell (`mod` = module level) -/
def CellId.scope : CellId → String
  | .dbPublic | .dbSchool => "holidays"
  | .boundaries => "try_from_coords"
  | .tzNameFinder | .tzByName => "from_coords"
  | .warnEaster => "mod"

/-! ### the inventory the model knows

One entry per match of the inventory patterns in the non-test sources: `(file, identifier, kind, scope)`.
`kind` says what the item is; the comment says why it cannot affect a result.
The first six are the cells above.  Everything else is not shared mutable state. -/

def knownInventory : List (String × String × String × String) := [
  -- `Once`: guards one `log::warn!("Easter is not supported yet")`; holds no value (cell warnEaster)
  ("opening-hours-syntax/src/parser.rs", "WARN_EASTER", "static-Once", "mod"),
  -- log records go to the `log` facade (a no-op unless the host installs a logger); no value flows back
  ("opening-hours-syntax/src/parser.rs", "log::warn!", "log-call", "build_date_from"),
  ("opening-hours-syntax/src/parser.rs", "log::warn!", "log-call", "build_daynum"),
  ("opening-hours-syntax/src/parser.rs", "log::warn!", "log-call", "build_daynum"),
  -- a type *named* `Cell` (a leaf of the paving tree used by normalisation): plain owned data
  ("opening-hours-syntax/src/normalize/paving.rs", "Cell", "type-named-Cell", "mod"),
  -- the command-line demo reads its arguments and the clock: a binary, not the library
  ("opening-hours/src/bin/schedule.rs", "env::args", "env", "main"),
  ("opening-hours/src/bin/schedule.rs", "Local::now", "clock", "main"),
  -- cells tzNameFinder, tzByName; the warning is logged when tzf-rs names a zone chrono-tz does not know
  ("opening-hours/src/localization/localize.rs", "TZ_NAME_FINDER", "static-LazyLock", "from_coords"),
  ("opening-hours/src/localization/localize.rs", "TZ_BY_NAME", "static-LazyLock", "from_coords"),
  ("opening-hours/src/localization/localize.rs", "log::warn!", "log-call", "from_coords"),
  -- cells boundaries, dbPublic, dbSchool; the warning is logged inside the initialiser of the two DBs
  ("opening-hours/src/localization/country/mod.rs", "BOUNDARIES", "static-LazyLock", "try_from_coords"),
  -- the decoded database is a `HashMap<Country, Arc<CompactCalendar>>` (return type of the decoder): it is
  -- only ever looked up by key (`.get(&country)`), never iterated, so the per-instance random state of
  -- its hasher cannot reach a result; any OTHER hash container appearing in the sources breaks this tie
  ("opening-hours/src/localization/country/mod.rs", "HashMap", "hash-container", "holidays"),
  ("opening-hours/src/localization/country/mod.rs", "log::warn!", "log-call", "decode_holidays_db"),
  ("opening-hours/src/localization/country/mod.rs", "DB_PUBLIC", "static-LazyLock", "holidays"),
  ("opening-hours/src/localization/country/mod.rs", "DB_SCHOOL", "static-LazyLock", "holidays"),
  -- Python bindings: installs the `log` → Python `logging` bridge at module import (no value flows back)
  ("opening-hours-py/src/lib.rs", "pyo3_log::init", "logger-init", "opening_hours"),
  -- Python bindings: an omitted `time` argument means "now": the instant is then an *input* chosen by
  -- the binding, evaluation stays a function of (expression, context, instant) (C12 states the default)
  ("opening-hours-py/src/types/datetime.rs", "Local::now", "clock", "unwrap_or_now"),
  -- Python bindings: the only non-frozen `#[pyclass]` is the iterator object, whose state is per object
  -- and guarded by pyo3's runtime borrow flag (`PyRefMut`); `OpeningHours` and `State` are `frozen`
  ("opening-hours-py/src/types/iterator.rs", "RangeIterator", "pyclass-mutable", "mod")
]

/-- the kinds the translator gives to `static` items -/
def staticKinds : List String :=
  ["static-LazyLock", "static-OnceLock", "static-OnceCell", "static-Once", "static-Mutex", "static-RwLock",
   "static-RefCell", "static-UnsafeCell", "static-Cell", "static-Atomic", "static-mut", "static-other",
   "thread-local-static"]

/-- the entries of the inventory that are process-wide state: exactly the cells -/
def inventoryCells (inv : List (String × String × String × String)) : List (String × String) :=
  (inv.filter (fun e => staticKinds.contains e.2.2.1)).map (fun e => (e.2.1, e.2.2.2))

end OH.Model.Purity
