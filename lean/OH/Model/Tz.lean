import OH.Model.Iter
/-
Model of `opening-hours/src/localization/localize.rs` (`Localize for TzLocation<Tz>`:
`naive`, `datetime`) and of the localized entry points of `opening_hours.rs`
(`iter_range`, `iter_from`, `next_change`, `state` for `L = TzLocation<Tz>`), property C09.

A time zone is what chrono-tz keeps for it (`FixedTimespanSet`): an initial offset and a finite
table of transitions `(UTC instant at which the offset starts to apply, offset)`.
* instants (absolute and local) are `Int` nanoseconds on the scale of `OH.Model.Instant`
  (day number × 86 400·10⁹ + nanosecond of the day); an absolute instant is the UTC reading;
* offsets are whole seconds east of UTC (`utc_offset + dst_offset`), `|offset| < 86 400`;
* chrono-tz resolves local times on whole seconds (`timestamp()`); transitions and offsets being
  whole seconds, comparing nanosecond counts is equivalent.
`datetime` follows `TzLocation::datetime` of /repo e1e5204: `latest()` of the requested local time
when it exists, otherwise `earliest()` of the first existing time among `requested + k min`, walked
back second by second (`earliest()`) while the local time exists.
`iter_range` follows /repo dfe1ade: filter (`keepRange`) → merge (`mergeRanges`) → map
(`mapIntervals`); `next_change` pulls the first item of the same pipeline lazily (`firstMergedG`).
What is NOT modelled: the content of the tz database (the table is an input; the correspondence
harness extracts it from chrono-tz), leap seconds, coordinates / sun events (C11).
Core-only imports.
-/
namespace OH.Model.Tz
open OH.Model OH.Model.Cal

structure Zone where
  /-- offset in force before the first transition (seconds) -/
  init : Int
  /-- `(utc instant in ns, offset in seconds)`, sorted by instant -/
  trans : List (Int × Int)
  deriving Repr, DecidableEq

def nsPerSec : Int := 1000000000

/-- seconds → nanoseconds -/
def offNs (o : Int) : Int := o * 1000000000

/-! ### UTC → local (`offset_from_utc_datetime`, `naive_local`) -/

/-- offset at `u`, walking the table; `o` is the offset in force before the head transition -/
def offsetFrom (o : Int) : List (Int × Int) → Int → Int
  | [], _ => o
  | (t', o') :: rest, u => if u < t' then o else offsetFrom o' rest u

def offsetAt (z : Zone) (u : Int) : Int := offsetFrom z.init z.trans u

/-- `dt.with_timezone(&tz).naive_local()`, without the range check (see `naiveChecked`) -/
def naive (z : Zone) (u : Int) : Int := u + offNs (offsetAt z u)

/-- `Localize::naive` for `TzLocation`: `naive_local()` is
`checked_add_offset(..).expect("Local time out of range for `NaiveDateTime`")` -/
def naiveChecked (z : Zone) (u : Int) : M Int :=
  let n := naive z u
  if n < instMin ∨ n > instMax then .error "chrono:naive_local Local time out of range for NaiveDateTime"
  else .ok n

/-! ### local → UTC (`offset_from_local_datetime` / `from_local_datetime`) -/

/-- the instants `n - o` of the spans starting at transition `(t, o)` and after whose local reading
is `n`: span `[t, t')` with offset `o` contains `n - o` (chrono-tz: `local_span(i).contains`) -/
def fromLocalFrom (t o : Int) : List (Int × Int) → Int → List Int
  | [], n => if t ≤ n - offNs o then [n - offNs o] else []
  | (t', o') :: rest, n =>
    (if t ≤ n - offNs o ∧ n - offNs o < t' then [n - offNs o] else []) ++ fromLocalFrom t' o' rest n

/-- all absolute instants whose local time is `n`, in increasing order: `LocalResult::None` = `[]`,
`Single(u)` = `[u]`, `Ambiguous(earliest, latest)` = `[earliest, latest]`.  (The first span has no
lower bound.)  chrono-tz only looks at the spans adjacent to the one its binary search finds; the
list is exact for every sorted table and has at most two elements for every `zoneOK` table. -/
def fromLocal (z : Zone) (n : Int) : List Int :=
  match z.trans with
  | [] => [n - offNs z.init]
  | (t', o') :: rest =>
    (if n - offNs z.init < t' then [n - offNs z.init] else []) ++ fromLocalFrom t' o' rest n

/-- `LocalResult::latest()` -/
def latest? (z : Zone) (n : Int) : Option Int := (fromLocal z n).getLast?
/-- `LocalResult::earliest()` -/
def earliest? (z : Zone) (n : Int) : Option Int := (fromLocal z n).head?

/-- local time from which every local time exists: start of the last span -/
def lastLocalFrom (t o : Int) : List (Int × Int) → Int
  | [] => t + offNs o
  | (t', o') :: rest => lastLocalFrom t' o' rest

def lastLocal (z : Zone) : Int :=
  match z.trans with
  | [] => 0
  | (t, o) :: rest => lastLocalFrom t o rest

theorem fromLocalFrom_eq_nil_lt (t o : Int) (l : List (Int × Int)) (n : Int)
    (h : fromLocalFrom t o l n = []) : n < lastLocalFrom t o l := by
  induction l generalizing t o with
  | nil =>
    simp only [fromLocalFrom] at h
    simp only [lastLocalFrom]
    split at h
    · cases h
    · omega
  | cons hd rest ih =>
    obtain ⟨t', o'⟩ := hd
    simp only [fromLocalFrom, List.append_eq_nil_iff] at h
    exact ih t' o' h.2

/-- a local time without any instant lies before the start of the last span: the termination
measure of the `datetime` loop -/
theorem fromLocal_eq_nil_lt (z : Zone) (n : Int) (h : fromLocal z n = []) : n < lastLocal z := by
  unfold fromLocal at h
  unfold lastLocal
  cases hz : z.trans with
  | nil => rw [hz] at h; cases h
  | cons hd rest =>
    obtain ⟨t', o'⟩ := hd
    rw [hz] at h
    simp only [List.append_eq_nil_iff] at h
    exact fromLocalFrom_eq_nil_lt t' o' rest n h.2

theorem getLast?_none_nil {z : Zone} {n : Int} (h : latest? z n = none) : fromLocal z n = [] :=
  List.getLast?_eq_none_iff.mp h

theorem head?_none_nil {z : Zone} {n : Int} (h : earliest? z n = none) : fromLocal z n = [] :=
  List.head?_eq_none_iff.mp h

/-- what one round of the loop of `Localize::datetime` reads off chrono's `LocalResult`:
```
let local = self.tz.from_local_datetime(&naive);
let found = if naive == requested { local.latest() } else { local.earliest() };
```
the later instant when the requested time itself exists (and is ambiguous), the first instant of a
time reached by stepping forward over a gap (/repo e1e5204) -/
def found? (z : Zone) (requested naive : Int) : Option Int :=
  if naive = requested then latest? z naive else earliest? z naive

theorem found?_none_nil {z : Zone} {requested n : Int} (h : found? z requested n = none) :
    fromLocal z n = [] := by
  unfold found? at h
  split at h
  · exact getLast?_none_nil h
  · exact head?_none_nil h

/-- the minute loop of `Localize::datetime` for `TzLocation`: the first local time among
`n, n + 1 min, …` that exists, with the instant `found?` picks for it.
```
let requested = naive;
loop { let local = …; let found = …;
       if let Some(mut dt) = found { …walk back…; return dt; }
       naive = naive.checked_add_signed(TimeDelta::minutes(1)).expect("no valid datetime for time zone"); }
```
The loop terminates because every local time from `lastLocal z` on exists (measure
`lastLocal z - n`); the `expect` is a panic site (`NaiveDateTime::MAX`), proved unreachable for
`n ≤ DATE_END` in `OH.Props.C09.datetime_no_panic`. -/
def minuteLoop (z : Zone) (requested n : Int) : M (Int × Int) :=
  match h : found? z requested n with
  | some u => .ok (n, u)
  | none =>
    if n + nsPerMin > instMax then .error "localize.rs:datetime no valid datetime for time zone"
    else minuteLoop z requested (n + nsPerMin)
termination_by (lastLocal z - n).toNat
decreasing_by
  have h1 : fromLocal z n = [] := found?_none_nil h
  have h2 := fromLocal_eq_nil_lt z n h1
  simp only [nsPerMin]
  omega

/-- the walk back inside the success branch (a minute step may land past the end of a gap that does
not end on a whole minute):
```
while naive > requested {
    naive -= TimeDelta::seconds(1);          // panics below NaiveDateTime::MIN
    match self.tz.from_local_datetime(&naive).earliest() { Some(prev) => dt = prev, None => break }
}
return dt;
```
The subtraction cannot underflow for a representable `requested` (`naive − requested` is a whole
number of seconds): `OH.Proofs.Tz.walkBack_spec`. -/
def walkBack (z : Zone) (requested naive dt : Int) : M Int :=
  if naive > requested then
    if naive - nsPerSec < instMin then .error "chrono:NaiveDateTime - TimeDelta overflowed"
    else
      match earliest? z (naive - nsPerSec) with
      | some prev => walkBack z requested (naive - nsPerSec) prev
      | none => .ok dt
  else .ok dt
termination_by (naive - requested).toNat
decreasing_by
  simp only [nsPerSec]
  omega

/-- `Localize::datetime` for `TzLocation` (`let requested = naive; loop { … }`): `latest()` of the
requested time when it exists; otherwise `earliest()` of the first existing time among
`requested + k min`, walked back second by second with `earliest()` while the time still exists -/
def datetime (z : Zone) (n : Int) : M Int :=
  match minuteLoop z n n with
  | .error p => .error p
  | .ok (m, u) => walkBack z n m u

/-! ### well-formed tables -/

def sortedFrom (t : Int) : List (Int × Int) → Bool
  | [] => true
  | (t', _) :: rest => decide (t < t') && sortedFrom t' rest

/-- transitions strictly increasing -/
def sorted (z : Zone) : Bool :=
  match z.trans with
  | [] => true
  | (t, _) :: rest => sortedFrom t rest

/-- `|offset| < 86 400 s` (chrono's `FixedOffset` invariant) -/
def offsetsBounded (z : Zone) : Bool :=
  decide (-86400 < z.init ∧ z.init < 86400) && z.trans.all (fun p => decide (-86400 < p.2 ∧ p.2 < 86400))

/-- every span between two transitions is at least one minute longer than the two offset jumps at
its ends together (`p` = offset before the span that starts at `t` with offset `o`).  This keeps
local spans in order: only adjacent spans overlap, a gap is followed by ≥ 1 minute of unambiguous
local time. -/
def spacedFrom (p t o : Int) : List (Int × Int) → Bool
  | [] => true
  | (t', o') :: rest =>
    decide (t' - t ≥ offNs (o - p).natAbs + offNs (o' - o).natAbs + nsPerMin) && spacedFrom o t' o' rest

def spaced (z : Zone) : Bool :=
  match z.trans with
  | [] => true
  | (t, o) :: rest => spacedFrom z.init t o rest

/-- the well-formedness hypothesis of the C09 theorems (a decidable check the driver runs on every
table it receives; the tables of the installed database that fail it are listed in NOTES.md) -/
def zoneOK (z : Zone) : Bool := sorted z && offsetsBounded z && spaced z

/-- weaker than `spacedFrom` (implied by it): the local spans are in order.  For the span
`[t, t')` with offset `o` (`p` = offset before it, `o'` = offset after it):
* its local end is not before the local end of the previous span (`t + p ≤ t' + o`),
* the local start of the next span is not before its own local start (`t + o ≤ t' + o'`),
* if it starts with a forward jump (`p < o`) it lasts at least one minute.
A gap may be directly followed by a fold (Europe/Lisbon 1992-09-27: `+1 → +2` at 00:00Z,
`+2 → +1` at 01:00Z: the whole hour after the gap is ambiguous), a fold by a fold or by a gap. -/
def orderedFrom (p t o : Int) : List (Int × Int) → Bool
  | [] => true
  | (t', o') :: rest =>
    decide (t + offNs p ≤ t' + offNs o ∧ t + offNs o ≤ t' + offNs o' ∧ (p < o → t' - t ≥ nsPerMin))
      && orderedFrom o t' o' rest

def spansOrdered (z : Zone) : Bool :=
  match z.trans with
  | [] => true
  | (t, o) :: rest => orderedFrom z.init t o rest

/-- the weaker well-formedness hypothesis (`OH.Props.C09.ZoneOrdered`): enough for every clause about
`datetime` except "at most two readings" and "the first valid time after a gap is read once" -/
def zoneOrdered (z : Zone) : Bool := sorted z && spansOrdered z

/-! ### gaps (finding classes) -/

/-- the transition `(T, gap start, gap end)` (local times) whose forward jump skips `n`:
`T + p ≤ n < T + o` where `p` is the offset before `T` -/
def gapOfFrom (p : Int) : List (Int × Int) → Int → Option (Int × Int × Int)
  | [], _ => none
  | (t, o) :: rest, n =>
    if t + offNs p ≤ n ∧ n < t + offNs o then some (t, t + offNs p, t + offNs o) else gapOfFrom o rest n

def gapOf (z : Zone) (n : Int) : Option (Int × Int × Int) := gapOfFrom z.init z.trans n

/-- class predicate of defect D16: the local span `a..b` is non-empty, starts inside a gap and ends
inside it or at its end -/
def localSpanInGap (z : Zone) (a b : Int) : Bool :=
  match gapOf z a with
  | some (_, _, g) => decide (a < b ∧ b ≤ g)
  | none => false

/-- class predicate `unaligned-gap` on (table, naive instant), after the walk-back repair: `n` is
skipped by a forward jump whose landing time is not a whole number of SECONDS after `n` —
`datetime z n` then is `(n - b) mod 1 s` after the first valid instant.  Never the case for a whole-second
`n` in a whole-second table (`OH.Props.C09.unalignedGap_false`), i.e. for no naive result. -/
def unalignedGap (z : Zone) (n : Int) : Bool :=
  match gapOf z n with
  | some (_, _, b) => decide ((n - b) % nsPerSec ≠ 0)
  | none => false

/-- class predicate `unaligned-gap-backwards` on (table, naive bounds `a ≤ b`): `a` is skipped by a
forward jump landing on `g`, and `b` lies in `[g, g + (a - g) mod 1 s)`: `datetime z a` is AFTER
`datetime z b`.  Needs a sub-second phase of `a`: never for evaluator bounds. -/
def backwardsInGap (z : Zone) (a b : Int) : Bool :=
  match gapOf z a with
  | some (_, _, g) => decide (a ≤ b ∧ g ≤ b ∧ b < g + (a - g) % nsPerSec)
  | none => false

/-- FORMER class predicate `zone-not-ok` on (table, naive instant), no longer a finding class (the
driver does not use it): `n` is skipped by a forward jump at `T` but the landing second `b + r` is
not read last at `T + r` (a fold follows the gap directly, e.g. Europe/Lisbon 1992-09-27).  Before
/repo e1e5204 `datetime` answered `latest()` there — the post-fold reading, an hour late; it now
answers `earliest()` = `T + r` (`OH.Props.C09.datetime_gap_ordered`).
Impossible for `zoneOK` tables (`OH.Props.C09.gapLandsInFold_false`), true on `lisbon1992`. -/
def gapLandsInFold (z : Zone) (n : Int) : Bool :=
  match gapOf z n with
  | some (T, _, b) => (fromLocal z (b + (n - b) % nsPerSec)).getLast? != some (T + (n - b) % nsPerSec)
  | none => false

/-- transitions happen on whole seconds (offsets are whole seconds by type): true of every table
chrono-tz can hold (`i64` timestamps) -/
def secondsAligned (z : Zone) : Bool := z.trans.all (fun p => decide (p.1 % nsPerSec = 0))

/-- every forward jump lands on a whole local minute (`GapMinuteAligned`) -/
def gapsAlignedFrom (p : Int) : List (Int × Int) → Bool
  | [] => true
  | (t, o) :: rest => (decide (o ≤ p) || decide ((t + offNs o) % nsPerMin = 0)) && gapsAlignedFrom o rest

def gapsAligned (z : Zone) : Bool := gapsAlignedFrom z.init z.trans

/-! ### the localized API (`impl<L: Localize> OpeningHours<L>` at `L = TzLocation<Tz>`)

Inputs are absolute instants (`DateTime<Tz>`; the zone the value is expressed in is irrelevant:
`naive` starts with `with_timezone(&self.tz)`), outputs are absolute instants of the context zone.
The functions are written against an `Env` like the iterator; `…Tz ctx e` instantiate `envOf`. -/

/-- `locale.datetime(start)..locale.datetime(end)` -/
def mapInterval (z : Zone) (iv : Interval) : M Interval :=
  match datetime z iv.start with
  | .error p => .error p
  | .ok s =>
    match datetime z iv.stop with
    | .error p => .error p
    | .ok t => .ok ⟨s, t, iv.kind, iv.comments⟩

def mapIntervals (z : Zone) : List Interval → M (List Interval)
  | [] => .ok []
  | iv :: rest =>
    match mapInterval z iv with
    | .error p => .error p
    | .ok x =>
      match mapIntervals z rest with
      | .error p => .error p
      | .ok xs => .ok (x :: xs)

/-! #### `iter_range`: filter → merge → map (/repo dfe1ade)
```
let mut naive_ranges = self.iter_range_naive(naive_from, naive_to)
    .filter(move |dtr| locale.naive(locale.datetime(dtr.range.start)) < dtr.range.end)
    .peekable();
std::iter::from_fn(move || {
    let mut curr = naive_ranges.next()?;
    while let Some(next) = naive_ranges.next_if(|next| next.kind == curr.kind && curr.range.end <= next.range.start) {
        curr.range.end = next.range.end;
    }
    Some(DateTimeRange::new_with_sorted_comments(
        locale.datetime(curr.range.start)..locale.datetime(curr.range.end), curr.kind, curr.comments))
})
```
A local span that the clock skips entirely (it would be localized to an empty interval) is dropped,
the neighbours it separated — same kind, the first ends at/before the start of the second — are
merged (comments of the first), and only then the bounds are mapped by `datetime`. -/

/-- the `filter` closure: `locale.naive(locale.datetime(range.start)) < range.end` -/
def keepRange (z : Zone) (iv : Interval) : M Bool :=
  match datetime z iv.start with
  | .error p => .error p
  | .ok u =>
    match naiveChecked z u with
    | .error p => .error p
    | .ok n => .ok (decide (n < iv.stop))

/-- `.filter(…)` on the collected naive stream -/
def filterRanges (z : Zone) : List Interval → M (List Interval)
  | [] => .ok []
  | iv :: rest =>
    match keepRange z iv with
    | .error p => .error p
    | .ok k =>
      match filterRanges z rest with
      | .error p => .error p
      | .ok xs => .ok (if k then iv :: xs else xs)

/-- the `next_if` condition: only a skipped span separates two ranges of the same state -/
def mergeable (curr next : Interval) : Bool :=
  decide (next.kind = curr.kind) && decide (curr.stop ≤ next.start)

/-- the `from_fn` closure run to exhaustion on the filtered list, `curr` being the range in hand:
`while let Some(next) = next_if(mergeable) { curr.end = next.end }`, then `curr` is emitted and the
next call starts with the range left in the peek slot -/
def mergeFrom (curr : Interval) : List Interval → List Interval
  | [] => [curr]
  | next :: rest =>
    if mergeable curr next then mergeFrom ⟨curr.start, next.stop, curr.kind, curr.comments⟩ rest
    else curr :: mergeFrom next rest

def mergeRanges : List Interval → List Interval
  | [] => []
  | curr :: rest => mergeFrom curr rest

/-- filter → merge → map on a collected naive stream -/
def localizeRanges (z : Zone) (l : List Interval) : M (List Interval) :=
  match filterRanges z l with
  | .error p => .error p
  | .ok fl => mapIntervals z (mergeRanges fl)

/-- `iter_range(from, to)` collected -/
def iterRangeTzG (env : Env) (z : Zone) (frm to : Int) : M (List Interval) :=
  match naiveChecked z frm with
  | .error p => .error p
  | .ok nf =>
    match naiveChecked z to with
    | .error p => .error p
    | .ok nt =>
      match iterRangeG env (min instEnd nf) (min instEnd nt) with
      | .error p => .error p
      | .ok l => localizeRanges z l

/-! the same pipeline pulled lazily for its first item only (`iter_from(t).next()` in `next_change`):
the naive iterator is advanced just as far as the filter and the `next_if` loop need -/

/-- one `next()` of `iter_range_naive(from, to)`: `TimeDomainIterator::next`, `take_while(start < to)`,
clipping — with the progress check of `OH.Model.collect` -/
def naiveNext (env : Env) (frm to : Int) (st : ItState) : M (Option (Interval × ItState)) :=
  match itNext env to st with
  | .error p => .error p
  | .ok none => .ok none
  | .ok (some (iv, st')) =>
    if iv.start ≥ to then .ok none
    else if itMeasure (instDay to) st' < itMeasure (instDay to) st then
      .ok (some (⟨max iv.start frm, min iv.stop to, iv.kind, iv.comments⟩, st'))
    else .error "model: iterator made no progress (unbounded iteration)"

theorem naiveNext_measure {env : Env} {frm to : Int} {st st' : ItState} {iv : Interval}
    (h : naiveNext env frm to st = .ok (some (iv, st'))) :
    itMeasure (instDay to) st' < itMeasure (instDay to) st := by
  unfold naiveNext at h
  split at h
  · cases h
  · cases h
  · split at h
    · cases h
    · split at h
      · rename_i hm
        simp only [Except.ok.injEq, Option.some.injEq, Prod.mk.injEq] at h
        rw [← h.2]; exact hm
      · cases h

/-- `naive_ranges.next()` / what `peek` computes: the next range that passes the filter -/
def nextKept (env : Env) (z : Zone) (frm to : Int) (st : ItState) : M (Option (Interval × ItState)) :=
  match h : naiveNext env frm to st with
  | .error p => .error p
  | .ok none => .ok none
  | .ok (some (iv, st')) =>
    match keepRange z iv with
    | .error p => .error p
    | .ok true => .ok (some (iv, st'))
    | .ok false => nextKept env z frm to st'
termination_by itMeasure (instDay to) st
decreasing_by exact naiveNext_measure h

theorem nextKept_measure {env : Env} {z : Zone} {frm to : Int} {st st' : ItState} {iv : Interval}
    (h : nextKept env z frm to st = .ok (some (iv, st'))) :
    itMeasure (instDay to) st' < itMeasure (instDay to) st := by
  fun_induction nextKept env z frm to st with
  | case1 st p hn => cases h
  | case2 st hn => cases h
  | case3 st iv0 st0 hn p hk => cases h
  | case4 st iv0 st0 hn hk =>
    simp only [Except.ok.injEq, Option.some.injEq, Prod.mk.injEq] at h
    rw [← h.2]; exact naiveNext_measure hn
  | case5 st iv0 st0 hn hk ih =>
    have h1 := ih h
    have h2 := naiveNext_measure hn
    omega

/-- the `while let Some(next) = naive_ranges.next_if(…)` loop, from the iterator state after `curr` -/
def absorb (env : Env) (z : Zone) (frm to : Int) (curr : Interval) (st : ItState) : M Interval :=
  match h : nextKept env z frm to st with
  | .error p => .error p
  | .ok none => .ok curr
  | .ok (some (next, st')) =>
    if mergeable curr next then absorb env z frm to ⟨curr.start, next.stop, curr.kind, curr.comments⟩ st'
    else .ok curr
termination_by itMeasure (instDay to) st
decreasing_by exact nextKept_measure h

/-- first item of the filtered and merged stream over `iter_range_naive(nf, nt)`, bounds not yet
mapped: `let mut curr = naive_ranges.next()?; while let Some(next) = … { … }` -/
def firstMergedG (env : Env) (z : Zone) (nf nt : Int) : M (Option Interval) :=
  match itNew env (min instEnd nf) (min instEnd nt) with
  | .error p => .error p
  | .ok st =>
    match nextKept env z (min instEnd nf) (min instEnd nt) st with
    | .error p => .error p
    | .ok none => .ok none
    | .ok (some (curr, st')) =>
      match absorb env z (min instEnd nf) (min instEnd nt) curr st' with
      | .error p => .error p
      | .ok c => .ok (some c)

/-- first item of `iter_range(from, to)` -/
def firstIntervalTzG (env : Env) (z : Zone) (frm to : Int) : M (Option Interval) :=
  match naiveChecked z frm with
  | .error p => .error p
  | .ok nf =>
    match naiveChecked z to with
    | .error p => .error p
    | .ok nt =>
      match firstMergedG env z (min instEnd nf) (min instEnd nt) with
      | .error p => .error p
      | .ok none => .ok none
      | .ok (some c) =>
        match mapInterval z c with
        | .error p => .error p
        | .ok x => .ok (some x)

/-- `iter_from(from)` collected: `iter_range(from, locale.datetime(DATE_END))` -/
def iterFromTzG (env : Env) (z : Zone) (frm : Int) : M (List Interval) :=
  match datetime z instEnd with
  | .error p => .error p
  | .ok e => iterRangeTzG env z frm e

/-- `state(t)` (repaired code, /repo b0d5731): purely naive —
```
let naive_time = self.ctx.locale.naive(current_time);
if naive_time >= DATE_END { return RuleKind::Closed; }
self.iter_range_naive(naive_time, naive_time + Duration::minutes(1)).next()…
```
i.e. `OH.Model.stateG` at the wall-clock time; no `datetime` mapping, no absolute `+ 1 min` -/
def stateTzG (env : Env) (z : Zone) (t : Int) : M Kind :=
  match naiveChecked z t with
  | .error p => .error p
  | .ok n0 => stateG env n0

/-- `next_change(t)`: `iter_from(t).next()?`, then `if locale.naive(end) >= DATE_END { None }` -/
def nextChangeTzG (env : Env) (z : Zone) (t : Int) : M (Option Int) :=
  match datetime z instEnd with
  | .error p => .error p
  | .ok e =>
    match firstIntervalTzG env z t e with
    | .error p => .error p
    | .ok none => .ok none
    | .ok (some iv) =>
      match naiveChecked z iv.stop with
      | .error p => .error p
      | .ok ne => if ne ≥ instEnd then .ok none else .ok (some iv.stop)

def iterRangeTz (ctx : Ctx) (e : Expr) (z : Zone) (frm to : Int) : M (List Interval) :=
  iterRangeTzG (envOf ctx e) z frm to
def iterFromTz (ctx : Ctx) (e : Expr) (z : Zone) (frm : Int) : M (List Interval) :=
  iterFromTzG (envOf ctx e) z frm
def firstIntervalTz (ctx : Ctx) (e : Expr) (z : Zone) (frm to : Int) : M (Option Interval) :=
  firstIntervalTzG (envOf ctx e) z frm to
def stateTz (ctx : Ctx) (e : Expr) (z : Zone) (t : Int) : M Kind :=
  stateTzG (envOf ctx e) z t
def nextChangeTz (ctx : Ctx) (e : Expr) (z : Zone) (t : Int) : M (Option Int) :=
  nextChangeTzG (envOf ctx e) z t

end OH.Model.Tz
