import OH.Model.RustInt
/-
Support library of `OH/Generated/Arith.lean` for the sixth increment of `translators/rs2lean.py` (`dated3`: the
`Date { .. }` arms of `MonthdayRange` and `single_interval_from_bounds`, `opening-hours/src/filter/date_filter.rs`;
DESIGN §8.9).  Hand-written, small, core-only.

The adaptor chains over a range of years, with closures that are translated (they can have a panic / overflow outcome):

* `rangeInclList lo hi`: the items of `lo..=hi` on an integer type, in order (nothing when `hi < lo`; the bounds were
  evaluated when the range was built, `RangeInclusive::next` does not overflow);
* `filterMapMapFindM f g p ys`: the value of `ys.filter_map(f).map(g).find(p)`: the adaptors are lazy and `find` pulls one
  item at a time, so the order is `f y₀, (g ·, p ·), f y₁, …` and nothing is run after the first item `p` accepts; an
  outcome of `f` / `g` that is not a value ends the whole expression with that outcome;
* `filterMapMapM f g ys`: the items of `ys.filter_map(f).map(g)`, all of them, in order, evaluated BEFORE the consumer
  runs (the consumer of the generated code takes a list).  The Rust consumers pull lazily; the difference is observable
  only through a closure that does not return a value, see `trusted_base` (TB_DATED3).
-/
namespace OH.Model.RustInt

/-- the items of `lo..=hi` -/
def rangeInclList (lo hi : Int) : List Int := (List.range (hi + 1 - lo).toNat).map (fun (i : Nat) => lo + (i : Int))

/-- `ys.filter_map(f).map(g).find(p)` -/
def filterMapMapFindM {α β : Type} (f : Int → R (Option α)) (g : α → R β) (p : β → Bool) : List Int → R (Option β)
  | [] => .ok none
  | y :: ys =>
    bnd (f y) fun o =>
    match o with
    | none => filterMapMapFindM f g p ys
    | some a =>
      bnd (g a) fun b =>
      if p b then .ok (some b) else filterMapMapFindM f g p ys

/-- the items of `ys.filter_map(f).map(g)`, evaluated in order -/
def filterMapMapM {α β : Type} (f : Int → R (Option α)) (g : α → R β) : List Int → R (List β)
  | [] => .ok []
  | y :: ys =>
    bnd (f y) fun o =>
    match o with
    | none => filterMapMapM f g ys
    | some a =>
      bnd (g a) fun b =>
      bnd (filterMapMapM f g ys) fun rest =>
      .ok (b :: rest)

end OH.Model.RustInt
