/-
Model of `compact-calendar/src/lib.rs` (crate `compact-calendar`, used by the holiday data base).

One Lean definition per Rust function, same control flow.

* A `NaiveDate` is only used through `.year() .month() .day()` and `from_ymd_opt`, so a date is the
  triple `Date = {year : Int, month day : Nat}`; `validYmd` is `NaiveDate::from_ymd_opt(..).is_some()`
  for chrono 0.4.39 (proleptic Gregorian calendar, `MIN_YEAR = -262143`, `MAX_YEAR = 262142`).
  Arguments of type `NaiveDate` in the Rust API are valid by construction; the model functions are
  total on all triples but the theorems only speak about valid ones.
* `CompactMonth(u32)` is a `Nat` mask (`< 2^32`, an invariant: every operation of the model keeps it),
  `CompactYear([CompactMonth; 12])` a `Vector Nat 12`, `CompactCalendar` a record of the `i32`
  `first_year` (an `Int`) and the `VecDeque` as a `List` (`push_front` = cons, `push_back` = append).
* Panics are explicit: `Except String α`, the error string is the panic location as printed by the
  harness (`compact-calendar/src/lib.rs:<line>`), `core` for overflow panics raised inside the
  standard library (`Step::forward` of `RangeFrom<i32>`, `Sum for u32`).  The model describes the
  build the harness uses: overflow checks ON (`i32`/`u32` overflow panics instead of wrapping).
* `io::Result` is `Option`: `none` = `Err(UnexpectedEof)` from `read_exact`; writers never fail
  (`Vec<u8>`).  Byte order is native = little endian (x86-64), `usize` = 8 bytes.

Core-only imports: this file is linked into the compiled driver.
-/
namespace OH.Model.CompactCalendar

/-! ## dates -/

structure Date where
  year : Int
  month : Nat
  day : Nat
  deriving DecidableEq, Repr, Inhabited

/-- Gregorian leap rule (proleptic; `%` on `Int` is the Euclidean remainder, as chrono's `rem_euclid`) -/
def isLeap (y : Int) : Bool := decide (y % 4 = 0 ∧ (y % 100 ≠ 0 ∨ y % 400 = 0))

def daysInMonth (y : Int) (m : Nat) : Nat :=
  if m = 2 then (if isLeap y then 29 else 28)
  else if m = 4 ∨ m = 6 ∨ m = 9 ∨ m = 11 then 30
  else 31

/-- `NaiveDate::from_ymd_opt(y, m, d).is_some()` -/
def validYmd (y : Int) (m d : Nat) : Bool :=
  decide (-262143 ≤ y ∧ y ≤ 262142 ∧ 1 ≤ m ∧ m ≤ 12 ∧ 1 ≤ d ∧ d ≤ daysInMonth y m)

def Date.valid (d : Date) : Bool := validYmd d.year d.month d.day

/-- `NaiveDate::from_ymd_opt(y, m, d).expect("invalid date loaded from calendar")` at `site` -/
def expectYmd (site : String) (y : Int) (m d : Nat) : Except String Date :=
  if validYmd y m d then .ok ⟨y, m, d⟩ else .error site

/-! ## u32 primitives -/

/-- `u32::trailing_zeros`: index of the least set bit, `32` for `0`.  Written as the search for the
least set bit of an arbitrary `Nat`; on `u32` values this is the hardware instruction. -/
def trailingZeros (n : Nat) : Nat :=
  if h : n = 0 then 32
  else if n % 2 = 1 then 0
  else trailingZeros (n / 2) + 1
termination_by n
decreasing_by omega

/-- `u32::count_ones`: number of set bits among the 32 bit positions -/
def countOnes (n : Nat) : Nat := ((List.range 32).filter n.testBit).length

theorem trailingZeros_spec (n : Nat) (h : n ≠ 0) :
    n.testBit (trailingZeros n) = true ∧ ∀ j, j < trailingZeros n → n.testBit j = false := by
  induction n using Nat.strongRecOn with
  | _ n ih =>
    rw [trailingZeros]
    simp only [h, ↓reduceDIte]
    by_cases h1 : n % 2 = 1
    · simp [h1]
    · simp only [h1, ↓reduceIte]
      have hn : n / 2 ≠ 0 := by omega
      obtain ⟨a, b⟩ := ih (n / 2) (by omega) hn
      refine ⟨by rw [Nat.testBit_succ]; exact a, ?_⟩
      intro j hj
      cases j with
      | zero => simp [h1]
      | succ j => rw [Nat.testBit_succ]; exact b j (by omega)

/-- clearing a set bit decreases the value: the termination measure of `CompactMonth::iter` -/
theorem xor_two_pow_lt (n i : Nat) (h : n.testBit i = true) : n ^^^ (1 <<< i) < n := by
  rw [Nat.one_shiftLeft]
  have hle : n ^^^ 2 ^ i ≤ n := by
    apply Nat.le_of_testBit
    intro j hj
    rw [Nat.testBit_xor, Nat.testBit_two_pow] at hj
    by_cases hij : i = j
    · subst hij; exact h
    · simpa [hij] using hj
  have hne : n ^^^ 2 ^ i ≠ n := by
    intro he
    have : (n ^^^ 2 ^ i).testBit i = n.testBit i := by rw [he]
    rw [Nat.testBit_xor, Nat.testBit_two_pow, h] at this
    simp at this
  omega

/-! ## little-endian byte strings (`to_ne_bytes` / `from_ne_bytes` / `read_exact`) -/

/-- `u32::to_ne_bytes` -/
def u32ToLe (n : Nat) : List Nat := [n % 256, n / 256 % 256, n / 65536 % 256, n / 16777216 % 256]

/-- `read_exact` of 4 bytes then `u32::from_ne_bytes`; `none` = short read -/
def u32OfLe : List Nat → Option (Nat × List Nat)
  | b0 :: b1 :: b2 :: b3 :: rest => some (b0 + 256 * b1 + 65536 * b2 + 16777216 * b3, rest)
  | _ => none

/-- `i32::to_ne_bytes` (two's complement) -/
def i32ToLe (x : Int) : List Nat := u32ToLe (x % 4294967296).toNat

/-- `read_exact` of 4 bytes then `i32::from_ne_bytes` -/
def i32OfLe (bs : List Nat) : Option (Int × List Nat) :=
  match u32OfLe bs with
  | none => none
  | some (u, rest) => some (if u < 2147483648 then (u : Int) else (u : Int) - 4294967296, rest)

/-- `usize::to_ne_bytes` (8 bytes) -/
def u64ToLe (n : Nat) : List Nat := u32ToLe (n % 4294967296) ++ u32ToLe (n / 4294967296)

/-- `read_exact` of 8 bytes then `usize::from_ne_bytes` -/
def u64OfLe (bs : List Nat) : Option (Nat × List Nat) :=
  match u32OfLe bs with
  | none => none
  | some (lo, rest) =>
    match u32OfLe rest with
    | none => none
    | some (hi, rest') => some (lo + 4294967296 * hi, rest')

/-! ## CompactMonth -/
namespace Month

/-- `CompactMonth::contains(self, day: u32)` -/
def contains (m day : Nat) : Except String Bool :=
  if 1 ≤ day ∧ day ≤ 31 then .ok (m &&& (1 <<< (day - 1)) != 0)
  else .error "compact-calendar/src/lib.rs:625"               -- assert!((1..=31).contains(&day))

/-- `CompactMonth::insert(&mut self, day: u32) -> bool`: new mask and the returned flag.
`1 << (day - 1)` cannot overflow after the assertion. -/
def insert (m day : Nat) : Except String (Nat × Bool) :=
  if 1 ≤ day ∧ day ≤ 31 then
    match contains m day with
    | .error e => .error e
    | .ok true => .ok (m, false)
    | .ok false => .ok (m ||| (1 <<< (day - 1)), true)
  else .error "compact-calendar/src/lib.rs:601"               -- assert!((1..=31).contains(&day))

/-- the `from_fn` closure of `CompactMonth::iter`, run to exhaustion: state `val`.
`1 << day0` cannot overflow: `val ≠ 0` is a `u32`, so `day0 < 32`. -/
def iterGo (val : Nat) : List Nat :=
  if _h : val ≠ 0 then
    let day0 := trailingZeros val
    (day0 + 1) :: iterGo (val ^^^ (1 <<< day0))
  else []
termination_by val
decreasing_by exact xor_two_pow_lt val _ (trailingZeros_spec val ‹_›).1

/-- `CompactMonth::iter(self)` -/
def iter (m : Nat) : List Nat := iterGo m

/-- `CompactMonth::first(self)` -/
def first (m : Nat) : Option Nat :=
  if m = 0 then none else some (trailingZeros m + 1)

/-- `CompactMonth::first_after(self, day: u32)`; `self.0 >> day` cannot overflow (`day ≤ 31`) -/
def firstAfter (m day : Nat) : Except String (Option Nat) :=
  if 1 ≤ day ∧ day ≤ 31 then
    let shifted := m >>> day
    if shifted = 0 then .ok none
    else .ok (some (day + trailingZeros shifted + 1))
  else .error "compact-calendar/src/lib.rs:691"               -- assert!((1..=31).contains(&day))

/-- `CompactMonth::count(self)` -/
def count (m : Nat) : Nat := countOnes m

/-- `CompactMonth::serialize` -/
def serialize (m : Nat) : List Nat := u32ToLe m

/-- `CompactMonth::deserialize` -/
def deserialize (bs : List Nat) : Option (Nat × List Nat) := u32OfLe bs

end Month

/-! ## CompactYear -/

abbrev Year := Vector Nat 12

namespace Year

/-- `CompactYear::default()` -/
def default : Year := Vector.replicate 12 0

/-- `CompactYear::insert(&mut self, month: u32, day: u32) -> bool` -/
def insert (y : Year) (month day : Nat) : Except String (Year × Bool) :=
  if hm : 1 ≤ month ∧ month ≤ 12 then
    if 1 ≤ day ∧ day ≤ 31 then
      match Month.insert y[month - 1] day with
      | .error e => .error e
      | .ok (m', b) => .ok (y.set (month - 1) m', b)
    else .error "compact-calendar/src/lib.rs:383"             -- assert!((1..=31).contains(&day))
  else .error "compact-calendar/src/lib.rs:382"               -- assert!((1..=12).contains(&month))

/-- `CompactYear::contains(&self, month: u32, day: u32)` -/
def contains (y : Year) (month day : Nat) : Except String Bool :=
  if hm : 1 ≤ month ∧ month ≤ 12 then
    if 1 ≤ day ∧ day ≤ 31 then Month.contains y[month - 1] day
    else .error "compact-calendar/src/lib.rs:402"
  else .error "compact-calendar/src/lib.rs:401"

/-- `(month_i..).zip(months).flat_map(|(month_i, month)| month.iter().map(|day| (month_i, day)))` -/
def iterFrom (monthI : Nat) : List Nat → List (Nat × Nat)
  | [] => []
  | m :: ms => (Month.iter m).map (fun day => (monthI, day)) ++ iterFrom (monthI + 1) ms

/-- `CompactYear::iter(&self)` -/
def iter (y : Year) : List (Nat × Nat) := iterFrom 1 y.toList

/-- `months.iter().enumerate().find_map(|(i, month)| Some((i + off, month.first()?)))`,
`monthI` = `i + off` of the head -/
def firstFrom (monthI : Nat) : List Nat → Option (Nat × Nat)
  | [] => none
  | m :: ms =>
    match Month.first m with
    | some day => some (monthI, day)
    | none => firstFrom (monthI + 1) ms

/-- `CompactYear::first(&self)` -/
def first (y : Year) : Option (Nat × Nat) := firstFrom 1 y.toList

/-- `CompactYear::first_after(&self, month: u32, day: u32)` -/
def firstAfter (y : Year) (month day : Nat) : Except String (Option (Nat × Nat)) :=
  if hm : 1 ≤ month ∧ month ≤ 12 then
    if 1 ≤ day ∧ day ≤ 31 then
      let month0 := month - 1
      match Month.firstAfter y[month0] day with
      | .error e => .error e
      | .ok (some res) => .ok (some (month, res))
      | .ok none =>
        -- self.0[month0 + 1..] … res_month = i + month0 + 2
        .ok (firstFrom (month0 + 2) (y.toList.drop (month0 + 1)))
    else .error "compact-calendar/src/lib.rs:460"
  else .error "compact-calendar/src/lib.rs:459"

/-- `CompactYear::count(&self)`: at most `12 * 32`, no `u32` overflow -/
def count (y : Year) : Nat := (y.toList.map Month.count).sum

/-- `CompactYear::serialize` -/
def serialize (y : Year) : List Nat := y.toList.flatMap Month.serialize

/-- the loop of `CompactYear::deserialize`: `n` months read in order, stop at the first short read -/
def readMonths : Nat → List Nat → Option (List Nat × List Nat)
  | 0, bs => some ([], bs)
  | n + 1, bs =>
    match Month.deserialize bs with
    | none => none
    | some (m, bs') =>
      match readMonths n bs' with
      | none => none
      | some (ms, rest) => some (m :: ms, rest)

theorem readMonths_length : ∀ (n : Nat) (bs ms rest : List Nat),
    readMonths n bs = some (ms, rest) → ms.length = n := by
  intro n
  induction n with
  | zero => intro bs ms rest h; simp [readMonths] at h; simp [h.1.symm]
  | succ n ih =>
    intro bs ms rest h
    simp only [readMonths] at h
    split at h
    · cases h
    · split at h
      · cases h
      · rename_i h2
        cases h
        simp [ih _ _ _ h2]

/-- `CompactYear::deserialize` -/
def deserialize (bs : List Nat) : Option (Year × List Nat) :=
  match h : readMonths 12 bs with
  | none => none
  | some (ms, rest) => some (⟨ms.toArray, by simpa using readMonths_length _ _ _ _ h⟩, rest)

end Year

/-! ## CompactCalendar -/

structure CompactCalendar where
  firstYear : Int
  years : List Year
  deriving DecidableEq, Repr

namespace CompactCalendar

/-- `CompactCalendar::default()` -/
def default : CompactCalendar := ⟨0, []⟩

/-- `usize::try_from(date.year() - self.first_year).ok()` with the `i32` subtraction checked at `site` -/
def yearIndex (site : String) (c : CompactCalendar) (date : Date) : Except String (Option Nat) :=
  let diff := date.year - c.firstYear
  if diff < -2147483648 ∨ diff > 2147483647 then .error site   -- i32 overflow
  else if diff < 0 then .ok none                                -- usize::try_from fails
  else .ok (some diff.toNat)

/-- `CompactCalendar::year_for(&self, date)` -/
def yearFor (c : CompactCalendar) (date : Date) : Except String (Option Year) :=
  match yearIndex "compact-calendar/src/lib.rs:32" c date with
  | .error e => .error e
  | .ok none => .ok none
  | .ok (some year0) => .ok c.years[year0]?

/-- `for _ in a..b { self.calendar.push_front(CompactYear::default()) }`, `n` = number of rounds -/
def pushFrontN : Nat → List Year → List Year
  | 0, ys => ys
  | n + 1, ys => pushFrontN n (Year.default :: ys)

/-- `for _ in a..b { self.calendar.push_back(CompactYear::default()) }`, `n` = number of rounds -/
def pushBackN : Nat → List Year → List Year
  | 0, ys => ys
  | n + 1, ys => pushBackN n (ys ++ [Year.default])

/-- `CompactCalendar::insert(&mut self, date) -> bool`: new calendar and returned flag.
A `Range<i32>` `a..b` runs `max(0, b - a)` rounds. -/
def insert (c : CompactCalendar) (date : Date) : Except String (CompactCalendar × Bool) :=
  -- year_for_mut
  match yearIndex "compact-calendar/src/lib.rs:53" c date with
  | .error e => .error e
  | .ok idx =>
    match idx.bind (fun year0 => (c.years[year0]?).map (fun y => (year0, y))) with
    | some (year0, year) =>
      match Year.insert year date.month date.day with
      | .error e => .error e
      | .ok (year', b) => .ok ({ c with years := c.years.set year0 year' }, b)
    | none =>
      if c.years.isEmpty then
        -- first_year = date.year(); push_back(default); back_mut().unwrap() (just pushed)
        match Year.insert Year.default date.month date.day with
        | .error e => .error e
        | .ok (year', b) => .ok (⟨date.year, c.years ++ [year']⟩, b)
      else if date.year < c.firstYear then
        let years := pushFrontN (c.firstYear - date.year).toNat c.years
        match years with
        | [] => .error "compact-calendar/src/lib.rs:89"        -- front_mut().unwrap()
        | year :: rest =>
          match Year.insert year date.month date.day with
          | .error e => .error e
          | .ok (year', b) => .ok (⟨date.year, year' :: rest⟩, b)
      else
        let len := c.years.length
        if len > 2147483647 then .error "compact-calendar/src/lib.rs:92"   -- "calendar is too large"
        else
          let lastYear : Int := c.firstYear + (len : Int) - 1
          if c.firstYear + (len : Int) > 2147483647 then .error "compact-calendar/src/lib.rs:91"  -- i32 `+`
          else if lastYear < -2147483648 then .error "compact-calendar/src/lib.rs:91"              -- i32 `- 1`
          else
            let years := pushBackN (date.year - lastYear).toNat c.years
            match years.getLast? with
            | none => .error "compact-calendar/src/lib.rs:99"  -- back_mut().unwrap()
            | some year =>
              match Year.insert year date.month date.day with
              | .error e => .error e
              | .ok (year', b) => .ok ({ c with years := years.set (years.length - 1) year' }, b)

/-- `CompactCalendar::contains(&self, date)` -/
def contains (c : CompactCalendar) (date : Date) : Except String Bool :=
  match yearFor c date with
  | .error e => .error e
  | .ok (some year) => Year.contains year date.month date.day
  | .ok none => .ok false

/-- The lazy iterator `(year_i..).zip(years).flat_map(|(year_i, year)| year.iter().map(expect …))`:
the list of the items it yields, each item being a date or the panic raised when it is pulled;
nothing is pulled after a panic.  `RangeFrom<i32>::next` computes `year_i + 1` when it yields
`year_i` (and it is pulled once more than `years` when the iteration runs to the end):
overflow panic in `core` (`Step::forward`). -/
def iterFrom (site : String) (yearI : Int) (ys : List Year) : List (Except String Date) :=
  if yearI ≥ 2147483647 then [.error "core"]
  else match ys with
    | [] => []
    | y :: ys' =>
      (Year.iter y).map (fun md => expectYmd site yearI md.1 md.2) ++ iterFrom site (yearI + 1) ys'

/-- `CompactCalendar::iter(&self)` as the lazy list of its items -/
def iter (c : CompactCalendar) : List (Except String Date) :=
  iterFrom "compact-calendar/src/lib.rs:156" c.firstYear c.years

/-- pulling all items of an iterator (`collect`, `count`, `for`): stops at the first panic -/
def collect : List (Except String Date) → Except String (List Date)
  | [] => .ok []
  | .error e :: _ => .error e
  | .ok d :: rest =>
    match collect rest with
    | .error e => .error e
    | .ok ds => .ok (d :: ds)

/-- `iterator.next()` -/
def next : List (Except String Date) → Except String (Option Date)
  | [] => .ok none
  | .error e :: _ => .error e
  | .ok d :: _ => .ok (some d)

/-- `(year_i..).zip(years).find_map(|(year_i, year)| { let (m, d) = year.first()?; Some(expect …) })` -/
def firstFrom (site : String) (yearI : Int) (ys : List Year) : Except String (Option Date) :=
  if yearI ≥ 2147483647 then .error "core"
  else match ys with
    | [] => .ok none
    | y :: ys' =>
      match Year.first y with
      | some (month, day) =>
        match expectYmd site yearI month day with
        | .error e => .error e
        | .ok d => .ok (some d)
      | none => firstFrom site (yearI + 1) ys'

/-- `CompactCalendar::first_after(&self, date)` -/
def firstAfter (c : CompactCalendar) (date : Date) : Except String (Option Date) :=
  match yearFor c date with
  | .error e => .error e
  | .ok (some year) =>
    match Year.firstAfter year date.month date.day with
    | .error e => .error e
    | .ok (some (month, day)) =>
      match expectYmd "compact-calendar/src/lib.rs:188" date.year month day with
      | .error e => .error e
      | .ok d => .ok (some d)
    | .ok none =>
      -- or_else: `year_for` returned `Some`, so the same subtraction succeeded and is non-negative
      match yearIndex "compact-calendar/src/lib.rs:192" c date with
      | .error e => .error e
      | .ok none => .ok none
      | .ok (some year0) =>
        if date.year + 1 > 2147483647 then .error "compact-calendar/src/lib.rs:194"
        else firstFrom "compact-calendar/src/lib.rs:200" (date.year + 1) (c.years.drop (year0 + 1))
  | .ok none =>
    if date.year < c.firstYear then next (iter c)
    else .ok none

/-- `CompactCalendar::count(&self) -> u32`: `Sum for u32` panics on overflow (in `core`);
the running sums only grow, so it panics iff the total does not fit. -/
def count (c : CompactCalendar) : Except String Nat :=
  let total := (c.years.map Year.count).sum
  if total > 4294967295 then .error "core" else .ok total

/-- `CompactCalendar::serialize` -/
def serialize (c : CompactCalendar) : List Nat :=
  i32ToLe c.firstYear ++ u64ToLe c.years.length ++ c.years.flatMap Year.serialize

/-- `(0..length).map(|_| CompactYear::deserialize(&mut reader)).collect::<Result<_, _>>()` -/
def readYears : Nat → List Nat → Option (List Year × List Nat)
  | 0, bs => some ([], bs)
  | n + 1, bs =>
    match Year.deserialize bs with
    | none => none
    | some (y, bs') =>
      match readYears n bs' with
      | none => none
      | some (ys, rest) => some (y :: ys, rest)

/-- `CompactCalendar::deserialize(reader)`: the value and the unread rest of the stream -/
def deserialize (bs : List Nat) : Option (CompactCalendar × List Nat) :=
  match i32OfLe bs with
  | none => none
  | some (firstYear, bs1) =>
    match u64OfLe bs1 with
    | none => none
    | some (length, bs2) =>
      match readYears length bs2 with
      | none => none
      | some (ys, rest) => some (⟨firstYear, ys⟩, rest)

/-- `FromIterator<NaiveDate>` / a history of insertions on `CompactCalendar::default()`;
the returned flags are dropped (`make_contiguous`/`shrink_to_fit` do not change the value) -/
def insertAll (c : CompactCalendar) : List Date → Except String CompactCalendar
  | [] => .ok c
  | d :: ds =>
    match insert c d with
    | .error e => .error e
    | .ok (c', _) => insertAll c' ds

def fromList (ds : List Date) : Except String CompactCalendar := insertAll default ds

end CompactCalendar
end OH.Model.CompactCalendar
