/-
The AST of `opening-hours-syntax/src/rules/{mod,day,time}.rs`, field for field.
`ExtendedTime` values are carried as minutes (C19: the `(hour, minute)` pair is isomorphic to
the minute count 0..2880); `u8`/`u16`/`i16`/`i64` fields are `Nat`/`Int`, their ranges being part
of `ParserWF` (OH/Model/ParserWF.lean) rather than of the types.
Core-only imports.
-/
namespace OH.Model

inductive Kind | open | closed | unknown
  deriving DecidableEq, Repr, Inhabited

inductive RuleOp | normal | additional | fallback
  deriving DecidableEq, Repr, Inhabited

structure YearRange where
  lo : Nat
  hi : Nat
  step : Nat
  deriving DecidableEq, Repr

/-- `ds::Date` (months as 1..12) -/
inductive DateSpec
  | fixed (year : Option Nat) (month : Nat) (day : Nat)
  | easter (year : Option Nat)
  deriving DecidableEq, Repr

/-- `ds::WeekDayOffset` (weekdays 0 = Monday … 6 = Sunday) -/
inductive WdayOffset
  | none
  | next (wd : Nat)
  | prev (wd : Nat)
  deriving DecidableEq, Repr

structure DateOffset where
  wday : WdayOffset
  days : Int
  deriving DecidableEq, Repr

inductive MonthdayRange
  | month (lo hi : Nat) (year : Option Nat)
  | date (s : DateSpec) (so : DateOffset) (e : DateSpec) (eo : DateOffset)
  deriving DecidableEq, Repr

structure WeekRange where
  lo : Nat
  hi : Nat
  step : Nat
  deriving DecidableEq, Repr

inductive HolidayKind | pub | school
  deriving DecidableEq, Repr

inductive WeekDayRange
  | fixed (lo hi : Nat) (offset : Int) (nthStart nthEnd : List Bool)
  | holiday (kind : HolidayKind) (offset : Int)
  deriving DecidableEq, Repr

structure DaySelector where
  year : List YearRange
  monthday : List MonthdayRange
  week : List WeekRange
  weekday : List WeekDayRange
  deriving DecidableEq, Repr

def DaySelector.isEmpty (s : DaySelector) : Bool :=
  s.year.isEmpty && s.monthday.isEmpty && s.week.isEmpty && s.weekday.isEmpty

inductive TimeEvent | dawn | sunrise | sunset | dusk
  deriving DecidableEq, Repr

inductive Time
  | fixed (mins : Nat)
  | variable (ev : TimeEvent) (offset : Int)
  deriving DecidableEq, Repr

structure TimeSpan where
  start : Time
  stop : Time
  openEnd : Bool
  repeats : Option Int      -- minutes
  deriving DecidableEq, Repr

def TimeSpan.fullDay : TimeSpan := ⟨.fixed 0, .fixed 1440, false, none⟩

structure Rule where
  day : DaySelector
  time : List TimeSpan
  kind : Kind
  op : RuleOp
  comments : List String
  deriving DecidableEq, Repr

abbrev Expr := List Rule

/-- `TimeSelector::is_00_24` -/
def is0024 (t : List TimeSpan) : Bool := t == [TimeSpan.fullDay]

/-- `TimeSelector::is_immutable_full_day`: *all* spans are the fixed 00:00-24:00 span -/
def isImmutableFullDay (t : List TimeSpan) : Bool := t.all (· == TimeSpan.fullDay)

/-- `RuleSequence::is_constant` -/
def Rule.isConstant (r : Rule) : Bool := r.day.isEmpty && is0024 r.time

end OH.Model
