import OH.Driver.Util
import OH.Driver.C19
import OH.Driver.Ev
import OH.Driver.Props
import OH.Driver.C20
import OH.Driver.C14
import OH.Driver.C15
import OH.Driver.Cal
import OH.Driver.Tz
import OH.Driver.Nz
/-
`ohdriver`: reads protocol lines on stdin, prints one verdict line per input line.
Only core + OH.Model/OH.Driver imports (no Mathlib), so it links as a `lean_exe`.
-/
open OH.Driver

def dispatch (op : String) (args impl : List String) : String :=
  let r :=
    if op.startsWith "et." then OH.Driver.C19.handle op args impl
    else if op.startsWith "ev." || op.startsWith "c01." then OH.Driver.Ev.handle op args impl
    else if op.startsWith "c02." || op.startsWith "c03." || op.startsWith "c04." || op.startsWith "c08."
        || op.startsWith "c16." || op.startsWith "c17." then OH.Driver.Props.handle op args impl
    else if op.startsWith "usv." then OH.Driver.C20.handle op args impl
    else if op.startsWith "sch." then OH.Driver.C14.handle op args impl
    else if op.startsWith "cal." then OH.Driver.C15.handle op args impl
    else if op.startsWith "chr." then OH.Driver.Cal.handle op args impl
    else if op.startsWith "tz." then OH.Driver.Tz.handle op args impl
    else if op.startsWith "nz." then OH.Driver.Nz.handle op args impl
    else none
  match r with
  | some v => v
  | none => s!"bad unknown-or-malformed op {op}"

def step (line : String) : String :=
  match line.trimAscii.toString.splitOn " " with
  | [] => "bad empty"
  | op :: rest =>
    if op.startsWith "#" then "note" else
    let (args, impl) := splitArrow rest
    dispatch op args impl

partial def loop (hin : IO.FS.Stream) (hout : IO.FS.Stream) : IO Unit := do
  let line ← hin.getLine
  if line.isEmpty then return ()
  hout.putStrLn (step line)
  loop hin hout

def main : IO Unit := do
  let hin ← IO.getStdin
  let hout ← IO.getStdout
  loop hin hout
  hout.flush
