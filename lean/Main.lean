import OH.Driver.Util
import OH.Driver.C19
import OH.Driver.Ev
import OH.Driver.Props
import OH.Driver.C20
import OH.Driver.C14
import OH.Driver.C15
import OH.Driver.Cal
import OH.Driver.Tz
import OH.Driver.Nz
import OH.Driver.C10
import OH.Driver.C11
import OH.Driver.C18
import OH.Driver.Py
import OH.Driver.Syn
import OH.Spec.SentGen
/-
`ohdriver`: reads protocol lines on stdin, prints one verdict line per input line.
Only core + OH.Model/OH.Driver imports (no Mathlib), so it links as a `lean_exe`.
-/
open OH.Driver

def dispatch (op : String) (args impl : List String) : String :=
  let r :=
    if op == "c04.parse" || op.startsWith "c05." || op.startsWith "c06." then OH.Driver.Syn.handle op args impl
    else if op.startsWith "et." then OH.Driver.C19.handle op args impl
    else if op.startsWith "ev." || op.startsWith "c01." then OH.Driver.Ev.handle op args impl
    else if op.startsWith "c02." || op.startsWith "c03." || op.startsWith "c04." || op.startsWith "c08."
        || op.startsWith "c16." || op.startsWith "c17." then OH.Driver.Props.handle op args impl
    else if op.startsWith "usv." then OH.Driver.C20.handle op args impl
    else if op.startsWith "sch." then OH.Driver.C14.handle op args impl
    else if op.startsWith "cal." then OH.Driver.C15.handle op args impl
    else if op.startsWith "chr." then OH.Driver.Cal.handle op args impl
    else if op.startsWith "tz." || op.startsWith "tzc02." then OH.Driver.Tz.handle op args impl
    else if op.startsWith "nz." then OH.Driver.Nz.handle op args impl
    else if op.startsWith "pur." then OH.Driver.C18.handle op args impl
    else if op.startsWith "py." then OH.Driver.Py.handle op args impl
    else if op.startsWith "sun." then OH.Driver.C11.handle op args impl
    else none
  match r with
  | some v => v
  | none => s!"bad unknown-or-malformed op {op}"

def step (line : String) : String :=
  match line.trimAscii.toString.splitOn " " with
  | [] => "bad empty"
  | op :: rest =>
    if op.startsWith "#" then "note" else
    let (args, impl) := splitArrow rest
    dispatch op args impl

/-- Suite `hol.*` (C10) is the only one that needs IO: the driver reads the two holiday data files
itself.  `hol.load <public> <school>` (re)loads them; any other `hol.*` line arriving first loads
`$OH_HOLIDAYS_PUBLIC` / `$OH_HOLIDAYS_SCHOOL` (default: the files of /repo).  The loaded state is kept;
everything after the reading is the pure `OH.Driver.C10.handle`. -/
def stepHol (ref : IO.Ref (Option OH.Driver.C10.Loaded)) (op : String) (args impl : List String) :
    IO String := do
  try
    let L ← match op, args, (← ref.get) with
      | "hol.load", [p, s], _ => do
        let L ← OH.Driver.C10.load p s
        ref.set (some L)
        pure L
      | _, _, some L => pure L
      | _, _, none => do
        let p := (← IO.getEnv "OH_HOLIDAYS_PUBLIC").getD OH.Driver.C10.defaultPublic
        let s := (← IO.getEnv "OH_HOLIDAYS_SCHOOL").getD OH.Driver.C10.defaultSchool
        let L ← OH.Driver.C10.load p s
        ref.set (some L)
        pure L
    match OH.Driver.C10.handle L op args impl with
    | some v => pure v
    | none => pure s!"bad unknown-or-malformed op {op}"
  catch e => pure s!"bad io {((toString e).replace " " "_").replace "\n" "_"}"

def stepIO (ref : IO.Ref (Option OH.Driver.C10.Loaded)) (line : String) : IO String :=
  match line.trimAscii.toString.splitOn " " with
  | op :: rest =>
    if op.startsWith "hol." then
      let (args, impl) := splitArrow rest
      stepHol ref op args impl
    else pure (step line)
  | [] => pure (step line)

partial def loop (ref : IO.Ref (Option OH.Driver.C10.Loaded)) (hin : IO.FS.Stream) (hout : IO.FS.Stream) :
    IO Unit := do
  let line ← hin.getLine
  if line.isEmpty then return ()
  hout.putStrLn (← stepIO ref line)
  loop ref hin hout

/-- `ohdriver gen c05 <quick|thorough> <seed>`: the sentence generator of OH/Spec/SentGen.lean prints (sentences of OH/Spec/Sent.lean)
`c05.den <text> A <denoted AST>` operation lines (executed afterwards by the harness on the real
parser and judged by `OH.Driver.Syn`) -/
def genC05 (tier : String) (seed : Nat) : IO Unit := do
  let hout ← IO.getStdout
  let n := if tier == "thorough" then 300000 else 8000
  let mut st := OH.Spec.SentGen.seedState seed
  for _ in [0:n] do
    let (s, st') := OH.Spec.SentGen.genSentence.run st
    st := st'
    -- the theorem `parse (render s) = ok (denote s)` is about well-formed sentences: the generator must
    -- stay inside them (a sentence outside is printed as a protocol error, never silently dropped)
    if !s.wf then
      hout.putStrLn s!"c05.den {enc (String.ofList s.render)} NOT-WF"
    else
      hout.putStrLn s!"c05.den {enc (String.ofList s.render)} A {joinSp (OH.Driver.Nz.showExpr s.denote)}"
  hout.flush

/-- `ohdriver gen c06 <tier> <seed>`: the same random sentences as sources of `c06.print` / `c06.printn`
lines (every constructor of the sentence grammar reaches the printers: shapes the string-level
generator of the harness does not produce, e.g. every position of a weekday set together with an
offset) -/
def genC06 (tier : String) (seed : Nat) : IO Unit := do
  let hout ← IO.getStdout
  let n := if tier == "thorough" then 100000 else 4000
  let mut st := OH.Spec.SentGen.seedState (seed + 77)
  for i in [0:n] do
    let (s, st') := OH.Spec.SentGen.genSentence.run st
    st := st'
    hout.putStrLn s!"{if i % 4 == 3 then "c06.printn" else "c06.print"} {enc (String.ofList s.render)}"
  hout.flush

def main (args : List String) : IO Unit := do
  match args with
  | ["gen", "c05", tier, seed] => genC05 tier (seed.toNat?.getD 1)
  | ["gen", "c06", tier, seed] => genC06 tier (seed.toNat?.getD 1)
  | _ =>
  let hin ← IO.getStdin
  let hout ← IO.getStdout
  let ref ← IO.mkRef (none : Option OH.Driver.C10.Loaded)
  loop ref hin hout
  hout.flush
