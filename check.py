#!/usr/bin/env python3
"""
check.py <ID> [--tier quick|thorough] [--replay FILE] [--seed N]
check.py --setup

Decides one property of /verif/properties.jsonl for the current working tree of /repo
(DESIGN.md §2.5):

 1. proof side   : regenerate OH/Generated/* from /repo, grep for forbidden constructs,
                   `lake build OH.Props.<ID>` + `ohdriver`, `#print axioms` audit of every theorem
                   declared in OH/Props/<ID>.lean (obligations / discharged);
 2. code side    : `cargo build --release` of /verif/harness against /repo's working tree;
 3. correspondence + oracle: corpus first, then generated operations, through the harness
                   (real code, in-process) and the compiled Lean driver (model + the property's
                   `holds` predicate evaluated on the implementation's output);
 4. decision     : VIOLATION / KNOWN-FINDING lines, replay file, evidence file.

Exit status: 0 property held on everything explored, 1 violation (with a VIOLATION line),
2 the machinery itself could not run (never a verdict about the code).
"""
import argparse
import fcntl
import hashlib
import json
import os
import re
import subprocess
import sys
import time

VERIF = os.path.dirname(os.path.abspath(__file__))
LEAN = os.path.join(VERIF, "lean")
HARNESS = os.path.join(VERIF, "harness")
CACHE = os.path.join(VERIF, ".cache")
REPO = os.environ.get("VERIF_REPO", "/repo")  # experiments only: another checkout (a seeded worktree)
DRIVER = os.path.join(LEAN, ".lake", "build", "bin", "ohdriver")
HARNESS_BIN = os.path.join(CACHE, "harness-target", "release", "ohharness")
ALLOWED_AXIOMS = {"propext", "Classical.choice", "Quot.sound"}
FORBIDDEN = re.compile(
    r"\b(sorry|admit|native_decide|bv_decide|implemented_by|unsafe)\b|^\s*axiom\s|maxHeartbeats\s+0\b"
)

ENV = dict(os.environ)
ENV.update({"CARGO_NET_OFFLINE": "true", "PIP_NO_INDEX": "1", "GOPROXY": "off"})
# the driver reads the holiday source files itself (C10): always those of the checkout under test
ENV["OH_HOLIDAYS_PUBLIC"] = os.path.join(REPO, "opening-hours/data/holidays_public.txt")
ENV["OH_HOLIDAYS_SCHOOL"] = os.path.join(REPO, "opening-hours/data/holidays_school.txt")
ENV["VERIF_REPO"] = REPO

sys.path.insert(0, VERIF)
from props import PROPS  # noqa: E402  (per-property configuration)


def log(*a):
    print(*a, file=sys.stderr, flush=True)


def run(cmd, cwd=None, timeout=None, stdin=None, stdout=subprocess.PIPE):
    return subprocess.run(
        cmd, cwd=cwd, env=ENV, stdin=stdin, stdout=stdout, stderr=subprocess.STDOUT, text=True, timeout=timeout
    )


# ----------------------------------------------------------------------------------------------
# proof side


def strip_comments(src):
    """remove Lean block comments (nested) and line comments, keep line structure"""
    out = []
    i, depth, n = 0, 0, len(src)
    while i < n:
        if src.startswith("/-", i):
            depth += 1
            i += 2
        elif depth and src.startswith("-/", i):
            depth -= 1
            i += 2
        elif depth:
            out.append("\n" if src[i] == "\n" else " ")
            i += 1
        elif src.startswith("--", i):
            while i < n and src[i] != "\n":
                i += 1
        elif src[i] == '"':
            # string literal: skip
            out.append('"')
            i += 1
            while i < n and src[i] != '"':
                if src[i] == "\\":
                    i += 1
                i += 1
            out.append('"')
            i += 1
        else:
            out.append(src[i])
            i += 1
    return "".join(out)


def lean_sources():
    files = [os.path.join(LEAN, "Main.lean")]
    for root, _, names in os.walk(os.path.join(LEAN, "OH")):
        for nm in names:
            if nm.endswith(".lean"):
                files.append(os.path.join(root, nm))
    return sorted(files)


def import_closure(roots):
    """files of the project reachable from the given modules through `import OH.…` lines"""
    seen, todo = set(), list(roots)
    while todo:
        m = todo.pop()
        if m in seen:
            continue
        seen.add(m)
        path = os.path.join(LEAN, *m.split(".")) + ".lean"
        try:
            src = open(path, encoding="utf-8").read()
        except OSError:
            continue
        for im in re.findall(r"^import\s+(\S+)", src, re.M):
            if im == "OH" or im.startswith("OH.") or im == "Main":
                todo.append(im)
    return sorted(os.path.join(LEAN, *m.split(".")) + ".lean" for m in seen)


def forbidden_scan(mods=None):
    """forbidden constructs in every source the property's theorems and the driver depend on (the
    import closure of the Props modules and of Main.lean); without `mods`: every source"""
    hits = []
    files = lean_sources() if mods is None else import_closure(list(mods) + ["Main"])
    for f in files:
        try:
            src = strip_comments(open(f, encoding="utf-8").read())
        except OSError:
            continue
        for ln, line in enumerate(src.split("\n"), 1):
            if FORBIDDEN.search(line):
                hits.append(f"{os.path.relpath(f, LEAN)}:{ln}: {line.strip()[:100]}")
    return hits


def theorems_of(mod):
    """fully qualified names of the theorems declared in OH/Props/<mod>.lean"""
    path = os.path.join(LEAN, "OH", "Props", f"{mod}.lean")
    src = strip_comments(open(path, encoding="utf-8").read())
    ns = []
    names = []
    for line in src.split("\n"):
        m = re.match(r"\s*namespace\s+(\S+)", line)
        if m:
            ns.append(m.group(1))
            continue
        m = re.match(r"\s*end\s+(\S+)", line)
        if m and ns and ns[-1] == m.group(1):
            ns.pop()
            continue
        m = re.match(r"\s*(?:@\[[^\]]*\]\s*)?(private\s+|protected\s+)?theorem\s+([^\s:({\[]+)", line)
        if m and not (m.group(1) or "").startswith("private"):
            # private helper lemmas are not addressable from the audit file and are not obligations
            names.append(".".join(ns + [m.group(2)]))
    return names


TRANSLATOR_OUTPUT = {
    "pest2lean.py": "OH.Generated.Grammar",
    "tables2lean.py": "OH.Generated.Tables",
    "countries2lean.py": "OH.Generated.Countries",
    "shared_state_inventory.py": "OH.Generated.SharedState",
    "rs2lean.py": "OH.Generated.Arith",
}


def run_translators():
    """regenerate OH/Generated/* from /repo (tie 1).  Returns list of (name, ok, message)."""
    res = []
    tdir = os.path.join(VERIF, "translators")
    if not os.path.isdir(tdir):
        return res
    for nm in sorted(os.listdir(tdir)):
        if nm.endswith(".py") and not nm.startswith("_"):
            p = run([sys.executable, os.path.join(tdir, nm)], cwd=VERIF, timeout=600)
            res.append((nm, p.returncode == 0, p.stdout[-2000:]))
    return res


def proof_side(pid, thorough):
    """returns dict(obligations=[names], discharged=[names], broken=[(name, why)], log=str)"""
    out = {"obligations": [], "discharged": [], "broken": [], "log": "", "checker_cmd": ""}
    tr = run_translators()
    mods_short = PROPS[pid].get("props_modules", [pid])
    # a translator that fails breaks the tie of the properties whose theorems import what it generates
    # (its previous output stays in place for the others)
    closure = set(import_closure([f"OH.Props.{ms}" for ms in mods_short]))
    for nm, ok, msg in tr:
        if not ok:
            gen = TRANSLATOR_OUTPUT.get(nm)
            if gen is None or os.path.join(LEAN, *gen.split(".")) + ".lean" in closure:
                out["broken"].append((f"translator:{nm}", msg.strip().split("\n")[-1][:300]))
            else:
                log(f"translator {nm} failed (does not feed {pid}'s theorems): {msg.strip()[-200:]}")
    hits = forbidden_scan([f"OH.Props.{ms}" for ms in mods_short])
    for h in hits:
        out["broken"].append(("forbidden-construct", h))
    names = []
    for ms in mods_short:
        names += theorems_of(ms)
    out["obligations"] = names
    mods = [f"OH.Props.{ms}" for ms in mods_short]
    mod = " ".join(mods)
    cmd = ["lake", "build"] + mods + ["ohdriver"]
    out["checker_cmd"] = f"cd /verif/lean && lake build {mod} ohdriver && lake env lean .audit/{pid}.lean  (# print axioms ⊆ {{propext, Classical.choice, Quot.sound}})"
    p = run(cmd, cwd=LEAN, timeout=3600)
    if p.returncode != 0:
        # another lake process (a concurrent check) may hold the build directory: one retry
        time.sleep(5)
        p = run(cmd, cwd=LEAN, timeout=3600)
    out["log"] = p.stdout[-6000:]
    props_ok = p.returncode == 0
    if not props_ok:
        # did the driver at least build?  (needed for the search for a failing input)
        p2 = run(["lake", "build", "ohdriver"], cwd=LEAN, timeout=3600)
        out["driver_ok"] = p2.returncode == 0
        errs = [l for l in p.stdout.split("\n") if l.startswith("error:")]
        # a front end of rs2lean.py that met a construct outside its subset leaves ITS section out of the generated
        # module (the other sections stay): the theorems about that section are what stops building here
        skipped = [l.strip() for _, _, msg in tr for l in msg.split("\n") if "NOT TRANSLATED" in l]
        out["broken"].append((mod, ("; ".join(skipped)[:500] + " => " if skipped else "") + ("; ".join(errs[:5])[:600] or "lake build failed")))
        return out
    out["driver_ok"] = True
    # axiom audit
    adir = os.path.join(LEAN, ".audit")
    os.makedirs(adir, exist_ok=True)
    afile = os.path.join(adir, f"{pid}.lean")
    with open(afile, "w", encoding="utf-8") as f:
        for m_ in mods:
            f.write(f"import {m_}\n")
        for n in names:
            f.write(f"#print axioms {n}\n")
    p = run(["lake", "env", "lean", afile], cwd=LEAN, timeout=1800)
    axioms = {}
    cur = None
    txt = p.stdout
    for m in re.finditer(r"^'(.+?)' (does not depend on any axioms|depends on axioms: \[([^\]]*)\])", txt, re.S | re.M):
        nm = m.group(1)
        axs = set() if m.group(3) is None else {a.strip() for a in m.group(3).replace("\n", " ").split(",") if a.strip()}
        axioms[nm] = axs
    for n in names:
        if n not in axioms:
            out["broken"].append((n, "no #print axioms output: " + txt[-300:].replace("\n", " ")))
        elif not axioms[n] <= ALLOWED_AXIOMS:
            out["broken"].append((n, "depends on axioms " + ",".join(sorted(axioms[n] - ALLOWED_AXIOMS))))
        else:
            out["discharged"].append(n)
    # a translator that gave up left the PREVIOUS generated module in place: theorems whose module
    # depends on it were checked against stale definitions, not against the current source
    stale = [TRANSLATOR_OUTPUT.get(b[0].split(":", 1)[1]) for b in out["broken"] if b[0].startswith("translator:")]
    stale_files = {os.path.join(LEAN, *g.split(".")) + ".lean" for g in stale if g}
    if stale_files:
        for ms in mods_short:
            if stale_files & set(import_closure([f"OH.Props.{ms}"])):
                gone = set(theorems_of(ms))
                out["discharged"] = [n for n in out["discharged"] if n not in gone]
    if thorough:
        p = run(["lake", "env", "leanchecker"] + mods, cwd=LEAN, timeout=3600)
        out["leanchecker"] = p.returncode
        if p.returncode != 0:
            out["broken"].append(("leanchecker", p.stdout[-400:]))
    return out


# ----------------------------------------------------------------------------------------------
# code side


def shadow_harness():
    """VERIF_REPO=<other checkout>: build a copy of the harness whose path dependencies point there
    (used to try seeded changes without touching /repo while other work depends on it)"""
    global HARNESS, HARNESS_BIN
    tag = hashlib.blake2b(REPO.encode(), digest_size=6).hexdigest()
    sh = os.path.join(CACHE, "shadow", tag)
    os.makedirs(sh, exist_ok=True)
    run(["rsync", "-a", "--delete", "--exclude", "target", HARNESS + "/", os.path.join(sh, "harness") + "/"])
    for root, _, names in os.walk(os.path.join(sh, "harness")):
        for nm in names:
            if nm.endswith((".rs", ".toml")):
                fp = os.path.join(root, nm)
                t = open(fp, encoding="utf-8").read()
                t2 = t.replace('"/repo', '"' + REPO).replace('target-dir = "../.cache/harness-target"', 'target-dir = "../target"')
                if t2 != t:
                    open(fp, "w", encoding="utf-8").write(t2)
    run(["cp", os.path.join(REPO, "Cargo.lock"), os.path.join(sh, "harness", "Cargo.lock")])
    HARNESS = os.path.join(sh, "harness")
    HARNESS_BIN = os.path.join(sh, "target", "release", "ohharness")


def build_harness():
    if REPO != "/repo":
        shadow_harness()
    p = run(["cargo", "build", "--release", "--offline"], cwd=HARNESS, timeout=3600)
    return p.returncode == 0, p.stdout[-4000:]


# ----------------------------------------------------------------------------------------------
# known findings


def load_findings(pid):
    """open findings of this property: list of dict(cls, witness, text)"""
    res = []
    path = os.path.join(VERIF, "known-findings.txt")
    if not os.path.exists(path):
        return res
    for line in open(path, encoding="utf-8"):
        line = line.strip()
        if not line.startswith("open:"):
            continue
        m = re.match(r"open:\s+property=(\S+)\s+class=(\S+)\s+witness=\[(.*?)\]\s+::\s+(.*)", line)
        if m and m.group(1) == pid:
            res.append({"cls": m.group(2), "witness": m.group(3), "text": m.group(4)})
    return res


# ----------------------------------------------------------------------------------------------
# running operations


class RealCodeDied(Exception):
    """the harness process hung or died while executing one operation on the real code"""

    def __init__(self, kind, op, detail):
        super().__init__(f"{kind}: {op}: {detail}")
        self.kind, self.op, self.detail = kind, op, detail


def run_ops(pid, label, harness_args, stdin_path=None, timeout=7200):
    """run the harness (generator or replay), then the driver; returns (ops_path, verdict_path)"""
    rdir = os.path.join(CACHE, "run")
    os.makedirs(rdir, exist_ok=True)
    ops = os.path.join(rdir, f"{pid}.{label}.ops")
    ver = os.path.join(rdir, f"{pid}.{label}.verdicts")
    with open(ops, "w") as fo:
        fin = open(stdin_path) if stdin_path else subprocess.DEVNULL
        p = subprocess.run([HARNESS_BIN] + harness_args, stdin=fin, stdout=fo, stderr=subprocess.PIPE, env=ENV, timeout=timeout)
        if stdin_path:
            fin.close()
    if p.returncode != 0:
        err = p.stderr.decode(errors="replace")
        m = re.search(r"^HANG (\d+) (.*)$", err, re.M)
        if p.returncode == 3 and m:
            # the watchdog of the harness: a call into the real code did not return within its limit
            raise RealCodeDied("hang", m.group(2), f"no answer after {m.group(1)} s")
        if p.returncode < 0 or p.returncode in (101, 134, 139):
            # the process died inside the real code (abort, stack overflow, allocation failure … —
            # panics are caught per operation): run it again writing each operation out before it starts
            trace = os.path.join(rdir, f"{pid}.{label}.trace")
            env2 = dict(ENV, OH_TRACE_OP=trace)
            fin = open(stdin_path) if stdin_path else subprocess.DEVNULL
            try:
                p2 = subprocess.run([HARNESS_BIN] + harness_args, stdin=fin, stdout=subprocess.DEVNULL, stderr=subprocess.PIPE, env=env2, timeout=timeout)
            finally:
                if stdin_path:
                    fin.close()
            if p2.returncode != 0 and os.path.exists(trace):
                raise RealCodeDied("crash", open(trace, errors="replace").read().strip(), f"process ended with code {p2.returncode}: {p2.stderr.decode(errors='replace')[-600:]}")
        raise RuntimeError(f"harness {harness_args} failed rc={p.returncode}: {err[-2000:]}")
    with open(ops) as fi, open(ver, "w") as fo:
        p = subprocess.run([DRIVER], stdin=fi, stdout=fo, stderr=subprocess.PIPE, env=ENV, timeout=timeout)
    if p.returncode != 0:
        raise RuntimeError(f"driver failed rc={p.returncode}: {p.stderr.decode(errors='replace')[-2000:]}")
    return ops, ver


def run_leangen(pid, suite, genargs, tier, seed, timeout=7200):
    """a suite whose operation lines are written by the Lean side (`ohdriver gen …`: the C05 sentence
    generator with denotations), executed by the harness on the real code, judged by the driver"""
    rdir = os.path.join(CACHE, "run")
    os.makedirs(rdir, exist_ok=True)
    gen = os.path.join(rdir, f"{pid}.{suite}.gen")
    with open(gen, "w") as fo:
        p = subprocess.run([DRIVER] + genargs + [tier, str(seed)], stdout=fo, stderr=subprocess.PIPE, env=ENV, timeout=timeout)
    if p.returncode != 0:
        raise RuntimeError(f"driver generator {genargs} failed rc={p.returncode}: {p.stderr.decode(errors='replace')[-2000:]}")
    return run_ops(pid, suite, ["exec"], stdin_path=gen, timeout=timeout)


def run_external(pid, suite, runner, tier, seed, replay=None, timeout=7200):
    """a suite whose operations are executed by more than the harness (C12: CPython + Rust core):
    the runner script prints one verdict line per operation and keeps the joined lines in --out"""
    rdir = os.path.join(CACHE, "run")
    os.makedirs(rdir, exist_ok=True)
    env = dict(ENV)
    # one target directory per checkout: cargo would not re-link `libopening_hours.so` for a checkout
    # whose fingerprint is fresh while the file on disk comes from another one
    pyt = os.path.join(CACHE, "py-target") if REPO == "/repo" else os.path.join(CACHE, "shadow", hashlib.blake2b(REPO.encode(), digest_size=6).hexdigest(), "py-target")
    env.update({"OH_PY_TARGET": pyt, "OH_HARNESS": HARNESS_BIN, "OH_DRIVER": DRIVER, "OH_REPO": REPO})
    cmd = [sys.executable, os.path.join(VERIF, runner), tier, str(seed), "--out", rdir]
    if replay:
        cmd += ["--replay", replay]
    ver = os.path.join(rdir, f"{pid}.{suite}.verdicts")
    with open(ver, "w") as fo:
        p = subprocess.run(cmd, stdout=fo, stderr=subprocess.PIPE, env=env, timeout=timeout)
    if p.returncode != 0:
        raise RuntimeError(f"runner {runner} failed rc={p.returncode}: {p.stderr.decode(errors='replace')[-2000:]}")
    ops = os.path.join(rdir, f"py_{tier}_{seed}.joined")
    return ops, ver


class Tally:
    def __init__(self, cfg, findings):
        self.cfg = cfg
        self.findings = {f["cls"]: f for f in findings}
        self.evaluations = 0
        self.tags = {}
        self.nontrivial = set()
        self.fails = []  # (op line, verdict)
        self.disagree = []
        self.known = {}  # cls -> count
        self.known_sample = {}
        self.bad = []
        self.samples = []
        self.notes = []
        self.trivial = set(cfg.get("trivial_tags", []))
        self.foreign = {}
        self.foreign_seen = {}
        for cls, other in cfg.get("foreign_classes", {}).items():
            if any(f["cls"] == cls for f in load_findings(other)):
                self.foreign[cls] = other
        # clauses of ANOTHER property judged by the same verdict function (suite shared by two
        # properties): such a `fail` is not a failing input of THIS property; when the model also
        # disagrees with the implementation on that line the correspondence is broken (-> disagree)
        self.foreign_clauses = cfg.get("foreign_clauses", {})

    def feed(self, ops_path, ver_path, keep_samples=4):
        with open(ops_path) as fo, open(ver_path) as fv:
            k = 0
            for op in fo:
                v = fv.readline()
                if not v:
                    self.bad.append((op.strip(), "driver produced no verdict"))
                    break
                op = op.rstrip("\n")
                v = v.rstrip("\n")
                if op.startswith("#"):
                    self.notes.append(op)
                    continue
                self.evaluations += 1
                if v.startswith("ok"):
                    tag = v[3:] or "-"
                    self.tags[tag] = self.tags.get(tag, 0) + 1
                    if tag.split(" ")[0] not in self.trivial:
                        h = hashlib.blake2b(op.split(" => ")[0].encode(), digest_size=8).digest()
                        self.nontrivial.add(h)
                        if k < keep_samples and (self.evaluations % 997 == 1 or len(self.samples) < 2):
                            self.samples.append(op[:400])
                            k += 1
                elif v.startswith("fail") or v.startswith("disagree"):
                    m = re.search(r"\bclass=(\S+)", v)
                    cls = m.group(1) if m else None
                    if cls and cls in self.findings:
                        self.known[cls] = self.known.get(cls, 0) + 1
                        self.known_sample.setdefault(cls, op)
                    elif cls and cls in self.foreign:
                        # a clause of ANOTHER property evaluated in this suite (listed there as an
                        # open finding): counted, neither a violation nor a finding of this property
                        self.foreign_seen[cls] = self.foreign_seen.get(cls, 0) + 1
                    elif v.startswith("fail") and len(v.split(" ")) > 1 and v.split(" ")[1] in self.foreign_clauses:
                        if "model-agrees=no" in v:
                            self.disagree.append((op, v))
                        else:
                            key = "clause:" + v.split(" ")[1]
                            self.foreign_seen[key] = self.foreign_seen.get(key, 0) + 1
                    elif v.startswith("fail"):
                        self.fails.append((op, v))
                    else:
                        self.disagree.append((op, v))
                else:
                    self.bad.append((op, v))


def write_replay(pid, seed, kind, body):
    rdir = os.path.join(VERIF, "replays")
    os.makedirs(rdir, exist_ok=True)
    path = os.path.join(rdir, f"{pid}-{kind}-seed{seed}.txt")
    with open(path, "w", encoding="utf-8") as f:
        f.write(body)
    return path


def main():
    ap = argparse.ArgumentParser()
    ap.add_argument("pid", nargs="?")
    ap.add_argument("--tier", default=os.environ.get("VERIF_TIER", "quick"))
    ap.add_argument("--seed", type=int, default=int(os.environ.get("VERIF_SEED", "1") or 1))
    ap.add_argument("--replay")
    ap.add_argument("--setup", action="store_true")
    ap.add_argument("--no-proof", action="store_true", help="(debugging) skip the Lean side")
    a = ap.parse_args()

    os.makedirs(CACHE, exist_ok=True)
    lock = open(os.path.join(CACHE, "lock"), "w")
    fcntl.flock(lock, fcntl.LOCK_EX)

    if a.setup:
        t0 = time.time()
        for nm, ok, msg in run_translators():
            log(f"translator {nm}: {'ok' if ok else 'FAILED ' + msg}")
        p = run(["lake", "build"], cwd=LEAN, timeout=7200)
        log(p.stdout[-3000:])
        ok, out = build_harness()
        log(out[-1500:])
        # the Python extension module (C12) is rebuilt by its runner on every run; build it once here
        pe = run(["cargo", "build", "-p", "opening-hours-py", "--lib", "--offline", "--target-dir", os.path.join(CACHE, "py-target")], cwd=REPO, timeout=3600)
        log(pe.stdout[-500:])
        ok = ok and pe.returncode == 0
        log(f"setup done in {time.time() - t0:.0f}s (lean rc={p.returncode}, harness ok={ok})")
        sys.exit(0 if (p.returncode == 0 and ok) else 2)

    pid = a.pid
    if pid not in PROPS:
        log(f"unknown or unclaimed property {pid}")
        sys.exit(2)
    cfg = PROPS[pid]
    tier = a.tier if a.tier in ("quick", "thorough") else "quick"
    t0 = time.time()
    findings = load_findings(pid)

    # 1. proof side
    if a.no_proof:
        proof = {"obligations": [], "discharged": [], "broken": [], "driver_ok": True, "checker_cmd": "", "log": ""}
    else:
        proof = proof_side(pid, tier == "thorough")
    if not proof.get("driver_ok", True):
        log(proof["log"])
        log("the Lean driver does not build: cannot run the correspondence")
        # still a broken obligation: reported below without a search
    # 2. code side
    ok, out = build_harness()
    if not ok:
        log(out)
        log("harness does not build against /repo's working tree")
        # is it the tree or the machinery?  When /repo itself compiles (library + hooks), the harness fails because
        # something it calls changed (a public signature, a hook): the model/implementation correspondence can no
        # longer be run on this tree, so the property is no longer shown to hold — reported as such, not as exit 2.
        pr = run(["cargo", "build", "--offline", "--lib"], cwd=REPO, timeout=3600)
        if pr.returncode == 0:
            errs = [l for l in out.split("\n") if l.startswith("error")]
            body = [f"property: {pid}", f"tier: {tier}", f"seed: {a.seed}", "kind: no-failing-input-found",
                    "what: the property is no longer shown to hold: the correspondence harness (/verif/harness, which calls the",
                    "      public API and the cfg-guarded hooks of this tree) does not compile against it although the library",
                    "      itself does — something the harness calls changed; no operation could be run, so no failing input",
                    "broken-correspondence: cargo build of /verif/harness :: " + "; ".join(errs[:6])[:900],
                    "--- cargo output (tail) ---", out[-3000:]]
            path = write_replay(pid, a.seed, "broken", "\n".join(body) + "\n")
            print(f"VIOLATION property={pid} replay={path} no-failing-input-found")
            sys.exit(1)
        sys.exit(2)

    # 3. correspondence + oracle
    tally = Tally(cfg, findings)
    try:
        if a.replay:
            # a replay file: lines starting with "op: " are operation lines (args only)
            tmp = os.path.join(CACHE, "run", f"{pid}.replay.in")
            os.makedirs(os.path.dirname(tmp), exist_ok=True)
            with open(tmp, "w") as f:
                hdr = re.compile(r"^(property|tier|seed|kind|what|replay with|verdict|total failing cases|also broken|broken-obligation|correspondence disagreements|op|---|      )\b|^#|^\s*$")
                for line in open(a.replay, encoding="utf-8"):
                    if line.startswith("op: "):
                        f.write(line[4:].split(" => ")[0].rstrip("\n") + "\n")
                    elif re.match(r"^[a-z0-9]+\.[a-z0-9]+ ", line) and not hdr.match(line):
                        # a bare operation line (the format of corpus/<ID>/*.ops)
                        f.write(line.split(" => ")[0].rstrip("\n") + "\n")
            if cfg.get("runners"):
                suite0 = next(iter(cfg["runners"]))
                o, v = run_external(pid, suite0, cfg["runners"][suite0], "quick", 0, replay=tmp)
            else:
                o, v = run_ops(pid, "replay", ["exec"], stdin_path=tmp)
            tally.feed(o, v)
        else:
            cdir = os.path.join(VERIF, "corpus", pid)
            if os.path.isdir(cdir):
                for nm in sorted(os.listdir(cdir)):
                    if nm.endswith(".ops"):
                        o, v = run_ops(pid, "corpus-" + nm[:-4], ["exec"], stdin_path=os.path.join(cdir, nm))
                        tally.feed(o, v, keep_samples=1)
            # witnesses of open findings are replayed too (they must still fail to be announced)
            if findings:
                tmp = os.path.join(CACHE, "run", f"{pid}.witness.in")
                os.makedirs(os.path.dirname(tmp), exist_ok=True)
                with open(tmp, "w") as f:
                    for fd in findings:
                        f.write(fd["witness"] + "\n")
                if cfg.get("runners"):
                    suite0 = next(iter(cfg["runners"]))
                    o, v = run_external(pid, suite0, cfg["runners"][suite0], "quick", 0, replay=tmp)
                else:
                    o, v = run_ops(pid, "witness", ["exec"], stdin_path=tmp)
                tally.feed(o, v, keep_samples=0)
            for suite in cfg["suites"]:
                if suite in cfg.get("runners", {}):
                    o, v = run_external(pid, suite, cfg["runners"][suite], tier, a.seed)
                elif suite in cfg.get("lean_generators", {}):
                    o, v = run_leangen(pid, suite, cfg["lean_generators"][suite], tier, a.seed)
                else:
                    o, v = run_ops(pid, suite, ["run", suite, tier, str(a.seed)])
                tally.feed(o, v)
            # a broken obligation or a disagreement triggers the search for a failing input:
            # the thorough generator for a bounded time, with other seeds
            if (proof["broken"] or tally.disagree) and not tally.fails and tier == "quick" and cfg.get("search", True):
                log("obligation/correspondence broken: searching for a failing input (bounded)")
                t1 = time.time()
                k = 0
                while not tally.fails and time.time() - t1 < cfg.get("search_s", 120):
                    k += 1
                    for suite in cfg["suites"]:
                        if suite in cfg.get("runners", {}):
                            o, v = run_external(pid, suite, cfg["runners"][suite], "quick", a.seed + 7919 * k)
                        elif suite in cfg.get("lean_generators", {}):
                            o, v = run_leangen(pid, suite + f"-search{k}", cfg["lean_generators"][suite], "quick", a.seed + 7919 * k)
                        else:
                            o, v = run_ops(pid, suite + f"-search{k}", ["run", suite, "quick", str(a.seed + 7919 * k)])
                        tally.feed(o, v, keep_samples=0)
    except RealCodeDied as e:
        # a call into the real code that hangs or kills the process: for C04 that operation IS the
        # failing input (no bounded work / no normal return); for the other properties the check
        # cannot be completed, so the property is no longer shown to hold
        body = [f"property: {pid}", f"tier: {tier}", f"seed: {a.seed}",
                "kind: " + ("failing-input" if pid == "C04" else "no-failing-input-found"),
                f"what: the real code did not return normally on the operation below ({e.kind}: {e.detail})",
                f"replay with: ./check.py {pid} --replay <this file>", "", "op: " + e.op, f"verdict: fail {e.kind}", ""]
        path = write_replay(pid, a.seed, "fail" if pid == "C04" else "broken", "\n".join(body) + "\n")
        print(f"VIOLATION property={pid} replay={path}" + ("" if pid == "C04" else " no-failing-input-found"))
        sys.exit(1)
    except (RuntimeError, subprocess.TimeoutExpired) as e:
        log(f"machinery failure: {e}")
        sys.exit(2)

    if tally.bad:
        log("protocol errors (harness/driver bug, not a verdict):")
        for op, v in tally.bad[:10]:
            log("  ", op[:300], "->", v[:300])
        sys.exit(2)

    # 4. decision
    violations = 0
    lines = []
    for cls, fd in tally.findings.items():
        if tally.known.get(cls):
            lines.append(f"KNOWN-FINDING: property={pid} {fd['text']} [class {cls}: {tally.known[cls]} case(s) this run, e.g. {tally.known_sample[cls][:160]}]")
    if tally.fails:
        violations += 1
        body = [f"property: {pid}", f"tier: {tier}", f"seed: {a.seed}", "kind: failing-input",
                "what: the property predicate is false on the implementation's output for the operation(s) below",
                f"replay with: ./check.py {pid} --replay <this file>", ""]
        # smallest failing operations first (the generators produce each construct at many sizes: the
        # shortest failing line is the practical minimisation)
        for op, v in sorted(tally.fails, key=lambda x: len(x[0]))[:20]:
            body.append("op: " + op)
            body.append("verdict: " + v)
            body.append("")
        body.append(f"total failing cases this run: {len(tally.fails)}")
        if proof["broken"]:
            body.append("also broken proof obligations: " + "; ".join(f"{n}: {w}" for n, w in proof["broken"][:10]))
        path = write_replay(pid, a.seed, "fail", "\n".join(body) + "\n")
        lines.append(f"VIOLATION property={pid} replay={path}")
    elif proof["broken"] or tally.disagree:
        violations += 1
        body = [f"property: {pid}", f"tier: {tier}", f"seed: {a.seed}", "kind: no-failing-input-found",
                "what: the property is no longer shown to hold: a proof obligation or the model/implementation",
                "      correspondence no longer checks, and the search found no input on which the property fails", ""]
        for n, w in proof["broken"][:30]:
            body.append(f"broken-obligation: {n} :: {w}")
        for op, v in tally.disagree[:20]:
            body.append("op: " + op)
            body.append("verdict: " + v)
        body.append(f"correspondence disagreements this run: {len(tally.disagree)}")
        if proof["broken"]:
            body.append("--- lake output (tail) ---")
            body.append(proof["log"][-3000:])
        path = write_replay(pid, a.seed, "broken", "\n".join(body) + "\n")
        lines.append(f"VIOLATION property={pid} replay={path} no-failing-input-found")

    wall = time.time() - t0
    if not a.replay:
        ev = {
            "property_id": pid,
            "tier": tier,
            "seed": a.seed,
            "level": "proof",
            "coverage": {
                "obligations": len(proof["obligations"]),
                "discharged": len(proof["discharged"]),
                "checker_cmd": proof["checker_cmd"],
                "trusted_base": cfg["trusted_base"],
                "theorems": proof["obligations"],
                "broken_obligations": [f"{n}: {w}" for n, w in proof["broken"]],
                "evaluations": tally.evaluations,
                "distinct_nontrivial": len(tally.nontrivial),
                "rule": cfg["rule"],
                "samples": tally.samples[:8] or ["(no non-trivial case)"],
                "distribution": dict(sorted(tally.tags.items(), key=lambda kv: -kv[1])[:60]),
                "disagreements_checked": tally.evaluations,
                "model_impl_disagreements": len(tally.disagree),
                "property_failures": len(tally.fails),
                "known_finding_cases": tally.known,
                "other_property_finding_cases": {(f"{k} (open finding of {tally.foreign[k]})" if k in tally.foreign else f"{k} (a clause of {tally.foreign_clauses.get(k.split(':', 1)[-1], '?')}, judged there)"): v for k, v in tally.foreign_seen.items()},
                "notes": tally.notes[:20],
                "exhaustive": bool(cfg.get("exhaustive", {}).get(tier, False)),
                "explanation": cfg.get("explanation", ""),
            },
            "assumptions": cfg.get("assumptions", []),
            "wall_s": round(wall, 2),
            "violations": violations,
        }
        # experiments against another checkout (a seeded worktree) never touch the committed evidence
        evdir = os.path.join(VERIF, "evidence") if REPO == "/repo" else os.path.join(CACHE, "evidence-shadow")
        os.makedirs(evdir, exist_ok=True)
        with open(os.path.join(evdir, f"{pid}.json"), "w", encoding="utf-8") as f:
            json.dump(ev, f, indent=1, ensure_ascii=False)
            f.write("\n")
    for l in lines:
        print(l)
    log(f"{pid} {tier}: {tally.evaluations} evaluations, {len(tally.nontrivial)} distinct non-trivial, "
        f"{len(proof['discharged'])}/{len(proof['obligations'])} obligations, {len(tally.fails)} failures, "
        f"{len(tally.disagree)} disagreements, known={tally.known}, {wall:.1f}s")
    sys.exit(1 if violations else 0)


if __name__ == "__main__":
    main()
