HOOK_COMMITS = []
NOTES = "See DESIGN.md. Every check is `./check.py <ID>`: Lean build + axiom audit of OH/Props/<ID>.lean, cargo build of the harness against /repo's working tree, correspondence + property oracle through the compiled Lean driver. known-findings.txt lists open findings and fixed defects."
PENDING = "not claimed yet: model/proofs under construction in this framework (see DESIGN.md §7 build order); the Lean technique applies, nothing is claimed until the check exists"
CLAIMS = {
    "C19": {
        "text": "Every clause of C19 is a Lean theorem about the model of ExtendedTime, proved for all inputs (omega after unfolding); the model is tied to the Rust type by exhaustive enumeration of the finite input domains (all u8 x u8, all u16, all values x all i8, values x 300-600 i16 offsets; thorough: all i16), so for this property the tie is itself complete.",
        "design_ref": "§5 C19",
        "note": "Trusted: Lean kernel + {propext, Classical.choice, Quot.sound}; the hand-written model OH/Model/ExtendedTime.lean (integer conversions written out as range tests); the harness and driver. Modelled not verified: chrono NaiveTime::from_hms_opt, std formatting of `{:02}`.",
        "technique": "Lean 4 theorems (omega) on a hand-written model + exhaustive correspondence with the Rust type",
    },
}
CLAIMS["C20"] = {
    "text": "Every clause of C20 is a Lean theorem about the model of UniqueSortedVec, for any element type with a lawful total order and all operands (31 theorems: From<Vec>, union incl. closed form and algebraic laws, contains, find_first_following, reachability closure); tie to the code: exhaustive small-alphabet enumeration through the real type plus random and UTF-8 string cases, spec predicate (plain list/set operations) evaluated on the implementation's output.",
    "design_ref": "§5 C20",
    "note": "Trusted: Lean kernel + {propext, Quot.sound}; hand-written model OH/Model/SortedVec.lean; harness/driver. Modelled not verified: sort_unstable+dedup, slice::binary_search (contract proved to determine the result uniquely on sorted input). Cannot exhibit: stack exhaustion of the recursive union on ~60k interleaved elements (observed as an abort in a manual probe, far beyond comment-list sizes).",
    "technique": "Lean 4 theorems (induction, fun_induction) on a hand-written model + exhaustive/random correspondence",
}
CLAIMS["C14"] = {
    "text": "All clauses of C14 are Lean theorems about the model of Schedule for arbitrary (overlapping, nested, adjacent, empty, inverted) inputs and any finite sequence of from_ranges/addition: WF invariant, from_ranges = union of inputs, overlay semantics of addition (most recent covering schedule wins), closure over every API-reachable schedule, iteration = gap-free alternating tiling with closed in the holes and no panic. Tie to the code: histories executed on the real type (raw ranges through the guarded accessor) with the overlay/tiling predicates evaluated on the implementation's output and model equality incl. comments.",
    "design_ref": "§5 C14",
    "note": "Trusted: Lean kernel + standard axioms; hand-written model OH/Model/Schedule.lean; harness/driver; the hook accessor. The former defect D6 (from_ranges lost nested ranges) is repaired in /repo (fix: 656bbfa) and the model follows the repaired code; `fromRangesBuggy_covers_fails` keeps the refutation of the old code. Not proved (driver only): exact comments of iterated ranges; the strongest 'isolated range keeps its comments' clause.",
    "technique": "Lean 4 theorems (fun_induction + grind, list induction) on a hand-written model + exhaustive small-grid and random history correspondence",
}
CLAIMS["C15"] = {
    "text": "All clauses of C15 are Lean theorems about the model of CompactCalendar for every insertion history of valid dates (no panic, window invariant, abstraction = inserted set, insert reports newness, contains/count/ordered iteration/first_after = sorted set for any query date, structural equality = set equality on reachable values, deserialize(serialize c ++ rest) = (c, rest) and its stream version). Tie to the code: histories replayed on the real crate and compared step by step with a plain sorted-set oracle and with the model, incl. permuted histories, concatenated/truncated/corrupted streams and the month/year bit operations.",
    "design_ref": "§5 C15",
    "note": "Trusted: Lean kernel + standard axioms; hand-written model OH/Model/CompactCalendar.lean (Nat masks with testBit/or/shift, little-endian bytes); harness/driver. Modelled not verified: chrono date validity, VecDeque, u32 bit intrinsics. Observed outside the property: deserialize accepts arbitrary bytes (such calendars can panic later); insert far from the window allocates every year in the gap.",
    "technique": "Lean 4 theorems (bit lemmas, foldl induction over histories) on a hand-written model + history correspondence against a sorted-set oracle",
}
CLAIMS["C01"] = {
    "text": "The documented semantics are an executable, declarative Lean specification (OH/Spec/Rules.lean). Lean theorems (OH/Props/C01.lean, proofs in OH/Proofs/EvalSpec*.lean): for every parsed expression (ParserWF), every day 1900..9999 and every minute, the model's iterated day schedule has exactly the state the specification defines — selectors (year/step/wrap, month, ISO week, weekday with nth and offsets, holidays = membership in the context calendars), time spans incl. events and the part beyond 24:00, and the rule fold (normal replaces, additional/closed overlay, fallback only when nothing non-closed covers the day, spans continued from yesterday) — C01_schedule_refines_spec_nodated in full for expressions without dated ranges, _window/_plain for dated ranges under a decidable class (bounds with a year unrestricted; yearless bounds whose total shift stays within about a year: exprDatedPlain / exprDatedSafe), `_partial` with the explicit hypothesis DatedAgree otherwise; c01Holds_iff makes the link with the run-time oracle literal. The same predicate is evaluated on the implementation's schedule_at output for every minute, and the model is tied to the code by correspondence (0 disagreements).",
    "design_ref": "§5 C01",
    "note": "Trusted: the hand-written specification (adopts the code's reading where the property text is silent, listed in the file); the model; chrono tie by the chr.* suite; harness/driver. Remaining hypothesis: the decidable dated-range class (beyond it: open finding dated-shift-over-a-year). Shifted days chrono cannot represent: the specification adopts the code's saturating reading (documented in the spec). Genuine defects repaired in /repo on the way: D10/D19, D11, D11b, D12, D18, D20 (pairing window). Out of scope by definition: dated ranges from a yearless date to a date with a year (no documented meaning).",
    "technique": "Lean 4 refinement proof (model of the evaluator ⊑ declarative specification) + the specification evaluated on the implementation's output + differential correspondence",
}
_LB = 'Layer B is now PROVED (OH/Props/C02B.lean): envOK_of_parserWF — for every parsed expression (ParserWF), every context whose calendars are strictly increasing and representable (CtxWF, what C15 provides) and the decidable scope exprHintSafe (dated ranges whose total shift stays within a year; everything without dated ranges unconditionally: years/steps/wrap, months with/without year, ISO weeks/steps, weekdays/nth/offsets, holidays/offsets, the rule fold incl. fallback/additional/spill/events, is_constant), the real day level meets EnvOK: daily schedules never error and tile the day, next_change_hint never errors, is after the day and never jumps over a day whose schedule differs. Outside the scope the statement is REFUTED on a witness (layerB_unscoped_fails: a bound moved by more than a year — open finding dated-shift-over-a-year). '
CLAIMS["C02"] = {
    "text": "Layer A is a complete Lean proof (OH/Props/C02A.lean): for ANY day level meeting EnvOK, iter_range terminates without panic and returns THE list of maximal constant runs of the pointwise state over [min from END, min to END) — tiling, kind at every sub-minute instant, adjacent kinds differ, no change skipped, uniqueness — by fun_induction over consume_until_next_kind/next/collect with well-founded termination. " + _LB + "The same clauses are evaluated on the implementation's stream at run time.",
    "design_ref": "§5 C02",
    "note": "Trusted: Lean kernel + standard axioms; hand-written model OH/Model/{Eval,Iter}.lean tied by correspondence; harness/driver. Former defects D7, D8, D9, D20 (hints / is_constant / pairing window) repaired in /repo — D20's sharp class was found by the hint-soundness proof attempt. Open: D16 (empty interval from a local span inside a DST gap, zone contexts only); dated-shift-over-a-year (listed under C01).",
    "technique": "Lean 4 theorems (fun_induction, invariants, uniqueness of runs) over an abstract day level + run-time oracle on the implementation's stream + differential correspondence",
}
CLAIMS["C03"] = {
    "text": "From Layer A (complete Lean proof for any day level meeting EnvOK): state(t) is the pointwise state for every bound; next_change is the exact next change (semantic definition IsNextChange, proved unique): some c => t < c < 10000-01-01, constant on [t, c), different at c; none <=> constant until 10000-01-01; identical inside one interval. " + _LB + "Oracle on the implementation: state vs the day's schedule, the three predicates, the next_change clauses by day scan, pairs of instants in one interval.",
    "design_ref": "§5 C03",
    "note": "Trusted as for C02. The former defect 'state closed during the minute before clocks are set back' (zone contexts) is repaired in /repo.",
    "technique": "Lean 4 corollaries of the iterator theorems + run-time oracle + correspondence",
}
CLAIMS["C08"] = {
    "text": "Proved without any hypothesis on the day level or the bound: no interval starts before the requested start or ends after min(requested end, 10000-01-01T00:00); next_change never returns an instant at or beyond 10000-01-01; the schedule of every day outside 1900-01-01..9999-12-31 is empty and state is closed from 10000-01-01 on. The clause 'from before 1900 next_change is the first non-closed instant from 1900-01-01 on' follows from C03 under the Layer B hypothesis and is checked by the oracle.",
    "design_ref": "§5 C08",
    "note": "Trusted as for C02.",
    "technique": "Lean 4 theorems (unconditional window lemmas) + run-time oracle around both bounds + correspondence",
}
CLAIMS["C16"] = {
    "text": "From Layer A, for EVERY bound B (negative and saturating ones included) and any day level meeting EnvOK: state is unchanged; next_change returns the exact answer or none, exact whenever the exact change lies at most B-24h after the instant, none whenever it lies more than B after it, none when the exact answer is none; negative bounds always answer none. " + _LB + "Oracle: exact (windowed) vs bounded answers with bounds placed around both thresholds.",
    "design_ref": "§5 C16",
    "note": "Trusted as for C02. The former defects (bound < -1 day: endless stream; bound near TimeDelta::MAX: panic) are repaired in /repo; only the first item of a bounded stream is in scope, as the property says.",
    "technique": "Lean 4 corollaries of the iterator theorems with both bound tests + run-time oracle + correspondence",
}
CLAIMS["C17"] = {
    "text": "Proved: every interval, in particular the first, carries the comments of the schedule period in force at its first instant (Layer A, any day level meeting EnvOK); comment lists of from_ranges/addition/iter results are well-formed and drawn from the inputs and an untouched range keeps exactly its comments (C14); union keeps sorted-unique (C20); outside the supported range the day has one closed range without comments. The expression-level clauses (provenance from a rule applying on d or d-1, single-rule exactness) are evaluated on the implementation's output with the specification's `applies`; they are not yet theorems.",
    "design_ref": "§5 C17",
    "note": "Trusted as for C02 and C14. Observation (not a violation of C17 as stated): Schedule::insert hands the comments of an overwritten range to the overwriting one.",
    "technique": "Lean 4 theorems (iterator + schedule comment lemmas) + run-time oracle on comments + correspondence incl. comments",
}
CLAIMS["C04"] = {
    "text": "Evaluation part. The model returns Except with one error per Rust panic site, so 'no panic' is a statement about the model; proved: the time-domain iterator is total and panic-free for any day level meeting EnvOK and EVERY interval-size bound (well-founded termination of consume, the progress check of collect never fires), the schedule iterator's assert is unreachable on API-built schedules, easter / count_days_in_month / time-span resolution / saturating offsets are total. " + _LB + "Every evaluator entry point runs under catch_unwind on extreme expressions, instants (chrono MIN/MAX, both range bounds) and bounds; any panic or endless stream is a violation. Parser part: see notes (checked by the parser suite; D1 open until repaired).",
    "design_ref": "§5 C04",
    "note": "Repaired in /repo: D2 (offset overflow), D3 (time span resolution), D4 (u16 overflow), D5 (state at MAX), D22 (bound range). Cannot exhibit: stack exhaustion (recursive union/addition), allocation failure, panics inside dependencies (tz lookup, solar computation) other than by running them. Not yet proved: absence of .error in scheduleAt/nextChangeHint under ParserWF (remaining sites: zero step, nth index — excluded by the parser).",
    "technique": "Lean 4 totality theorems on a model with explicit panic outcomes + catch_unwind harness on extremes + correspondence",
}
CLAIMS["C09"] = {
    "text": "Lean theorems about a zone model (finite transition table) for every well-formed table: naive/datetime laws (valid, ambiguous -> later, gap -> first valid instant), termination and no panic of the retry loop, bounds never go backwards, and localized state/next_change/iter_range = the NoLocation evaluation at the wall-clock time with results mapped back by datetime — the input's own zone is irrelevant. Tie to the code: transition tables extracted from chrono-tz travel with every operation; the clauses are evaluated on the implementation's instants and the localized results are compared with the implementation's own NoLocation run.",
    "design_ref": "§5 C09",
    "note": "Repaired in /repo: state during the minute before clocks are set back (b0d5731), datetime overshooting gaps that do not end on a whole minute (walk-back). Open: zone-not-ok (a gap directly followed by a fold, e.g. Europe/Lisbon 1992: result one hour after the first valid instant); the empty interval from a local span inside a gap is C02's clause (D16, open there). Cannot exhibit: the correctness of the tz database itself.",
    "technique": "Lean 4 theorems on a transition-table zone model + correspondence with chrono-tz tables + clauses evaluated on the implementation's instants",
}
CLAIMS["C07"] = {
    "text": "FULL Lean theorem (C07_normalize_preserves): for every expression in the parser's range (ExprOK), every context, every day and every minute, the day schedule of the normalized expression has the same state as the original's — by paving laws proved by induction on the dimension, canonical selector membership = the evaluator model's filters (with the real calendar lemmas), fold of the canonical prefix = pointwise reading of the rule combination, emitted rules fold back to the same function, the untouched tail cannot tell the prefixes apart. Tie to the code: normalize() of the real code compared as AST with the model on every line, and both implementation ASTs evaluated and compared per minute.",
    "design_ref": "§5 C07",
    "note": "Trusted: Lean kernel + standard axioms; hand-written models OH/Model/{Normalize,Eval}.lean; harness/driver. Repaired in /repo on the way: D13 (is_val early return, 18307f0), D12, D18 (the proof needed them). Comment-only differences (the evaluator hands the comments of an overwritten range to the overwriting one, the paving replaces) are not state differences and are tagged, not failed.",
    "technique": "Lean 4 theorems (type-class induction on the paving dimension, refinement of the rule fold) + AST correspondence of normalize + per-minute meaning oracle",
}
CLAIMS["C13"] = {
    "text": "FULL Lean theorems: normalize(normalize e) = normalize e, determinism, no panic/overflow and termination of canonical_to_seq (proved measure), normal form within the parser's ranges; popFilter depends only on the function the paving denotes. Tie to the code: idempotence and determinism checked on the implementation's ASTs, AST equality with the model. The 'printable and reparseable' clause is evaluated by reparsing the printed normal form: open finding D21 (a year with several month ranges has no sentence in the grammar).",
    "design_ref": "§5 C13",
    "note": "Trusted as for C07. D13 repaired in /repo (it refuted idempotence before: C13_idempotent_before_repair_fails). Open: D21-normalform-year-months.",
    "technique": "Lean 4 theorems on the normalization model + AST-level correspondence and idempotence oracle",
}
CLAIMS["C10"] = {
    "text": "Lean theorems: for ANY well-formed holiday database the decode pipeline of Country::holidays returns, per country, exactly the dates the build pipeline of build.rs was given for that country's code and nothing else (decode_encode, via C15's serialization framing theorem), hence embedded contains <-> listed in the source file, and PH/SH selectors see exactly these dates; the country enum, ALL, iso_code and FromStr tables are regenerated from generated.rs on every run by a translator and proved mutually consistent by kernel-checked decide. Tie to the code is exhaustive: every country x kind x every day 1990..2085 compared bit for bit between the embedded calendars and the model pipeline run on the two text files.",
    "design_ref": "§5 C10",
    "note": "Trusted: Lean kernel + standard axioms; translator countries2lean.py; models OH/Model/{HolidayDb,Country,CompactCalendar}.lean; harness/driver (the driver reads the data files itself). Assumed: inflate(deflate(x)) = x; chrono date parsing for the shape present in the files. Latent (not reachable with the shipped files, modelled bug for bug): an empty data file would panic in Country::holidays; a ',' in a region name would shift the following calendars.",
    "technique": "Lean 4 theorems (induction over regions, decide +kernel over generated tables) + translator + exhaustive correspondence with the embedded data",
}
CLAIMS["C18"] = {
    "text": "Lean theorems about the once-cell state machine that is the library's only shared mutable state (five LazyLock tables and one Once flag): in every interleaving of evaluations by any number of threads — including racing first uses — every evaluation returns what a single sequential call returns; clones, repeated calls and the order of first uses are irrelevant. Tie to the code: (a) a source inventory of every static/lazy/atomic/unsafe/thread-local item is regenerated on every run and must equal the model's cells (kernel-checked decide), so new shared state breaks the tie; (b) batches of evaluations from 8-16 threads on shared and cloned values, and fresh processes whose first uses of the lazy tables are ordered or raced, compared with the sequential answers.",
    "design_ref": "§5 C18",
    "note": "Partial by nature: the theorem is about the modelled once-cells, real interleavings are sampled; cannot exhibit data races inside dependencies or the memory model. The five LazyLocks are function-local statics, so first-use orders are permutations of the five lazily-initialising entry points.",
    "technique": "Lean 4 invariant proof over operation histories of a once-cell model + source inventory translator + multi-threaded / multi-process correspondence",
}
CLAIMS["C11"] = {
    "text": "Proved in Lean: the default event times without coordinates, event offset arithmetic, the acceptance condition of coordinates (over a model of doubles mirroring the crate's test), and the CONSEQUENCE — for any event function ordered within the day 'sunrise-sunset' is open exactly from sunrise to sunset (so at solar noon) and closed outside (so at solar midnight), incl. the wrapped case. The physical ordering itself is a fact about third-party floating-point solar geometry and polygon lookup that no executable Lean model of reasonable size can carry: it is covered by a grid search (a test, labelled as such in the evidence), not by a theorem.",
    "design_ref": "§5 C11",
    "note": "Triage of D17: times of DAY out of order because civil dusk falls after local midnight (55-60 degrees, June) is not a violation of 'physically ordered' (the instants are ordered, the consequence holds on every such day): reclassified as an ok-level tag. Open: clock-change-between-events (zone offset changes between two events of one day; one point-day in 146.8 M where the consequence fails). Above 60.56 degrees the sunrise crate returns the epoch for events that do not occur (outside the property's latitude range).",
    "technique": "Lean 4 theorems on the provable part + grid search over coordinates and dates for the third-party floating-point part",
}
CLAIMS["C12"] = {
    "text": "Lean theorems about a model of the binding that is parametric in the core operations: the constructor builds exactly the context the property describes for every combination of timezone / country / coords / auto_* flags (decision table, error classes and their order), state / is_* / next_change / intervals / normalize / str return the core's result for that context with 10000-01-01 mapped to None and the zone of the context or else of the input, validate iff the constructor parses. Tie to the code: the extension module is rebuilt from /repo and driven in CPython on the same operation lines as the Rust core; results, zones, None mapping and exception classes are compared per line; PanicException is a violation.",
    "design_ref": "§5 C12",
    "note": "PyO3's conversions are exercised, not modelled. Open findings: aware datetimes with datetime.timezone tzinfo refused (TypeError), aware times inside a DST gap refused, repr() uses Rust escaping (N4), and three tz-database discrepancies between CPython and chrono-tz (from 2100, before 1970, a zone missing). Fixed on the way: D1 (PanicException from the constructor and validate), D14 (str did not parse back). Observations recorded in notes/C12.md (auto_timezone=False drops coordinates, no __eq__/__hash__).",
    "technique": "Lean 4 theorems on a parametric binding model + three-way correspondence CPython extension / Rust core / model",
}
ALL = [f"C{i:02d}" for i in range(1, 21)]
NOT_APPLICABLE = {p: PENDING for p in ALL if p not in CLAIMS}
