HOOK_COMMITS = []
NOTES = "See DESIGN.md. Every check is `./check.py <ID>`: Lean build + axiom audit of OH/Props/<ID>.lean, cargo build of the harness against /repo's working tree, correspondence + property oracle through the compiled Lean driver. known-findings.txt lists open findings and fixed defects."
PENDING = "not claimed yet: model/proofs under construction in this framework (see DESIGN.md §7 build order); the Lean technique applies, nothing is claimed until the check exists"
CLAIMS = {
    "C19": {
        "text": "Every clause of C19 is a Lean theorem about the model of ExtendedTime, proved for all inputs (omega after unfolding); the model is tied to the Rust type by exhaustive enumeration of the finite input domains (all u8 x u8, all u16, all values x all i8, values x 300-600 i16 offsets; thorough: all i16), so for this property the tie is itself complete.",
        "design_ref": "§5 C19",
        "note": "Trusted: Lean kernel + {propext, Classical.choice, Quot.sound}; the hand-written model OH/Model/ExtendedTime.lean (integer conversions written out as range tests); the harness and driver. Modelled not verified: chrono NaiveTime::from_hms_opt, std formatting of `{:02}`.",
        "technique": "Lean 4 theorems (omega) on a hand-written model + exhaustive correspondence with the Rust type",
    },
}
CLAIMS["C20"] = {
    "text": "Every clause of C20 is a Lean theorem about the model of UniqueSortedVec, for any element type with a lawful total order and all operands (31 theorems: From<Vec>, union incl. closed form and algebraic laws, contains, find_first_following, reachability closure); tie to the code: exhaustive small-alphabet enumeration through the real type plus random and UTF-8 string cases, spec predicate (plain list/set operations) evaluated on the implementation's output.",
    "design_ref": "§5 C20",
    "note": "Trusted: Lean kernel + {propext, Quot.sound}; hand-written model OH/Model/SortedVec.lean; harness/driver. Modelled not verified: sort_unstable+dedup, slice::binary_search (contract proved to determine the result uniquely on sorted input). Cannot exhibit: stack exhaustion of the recursive union on ~60k interleaved elements (observed as an abort in a manual probe, far beyond comment-list sizes).",
    "technique": "Lean 4 theorems (induction, fun_induction) on a hand-written model + exhaustive/random correspondence",
}
CLAIMS["C14"] = {
    "text": "All clauses of C14 are Lean theorems about the model of Schedule for arbitrary (overlapping, nested, adjacent, empty, inverted) inputs and any finite sequence of from_ranges/addition: WF invariant, from_ranges = union of inputs, overlay semantics of addition (most recent covering schedule wins), closure over every API-reachable schedule, iteration = gap-free alternating tiling with closed in the holes and no panic. Tie to the code: histories executed on the real type (raw ranges through the guarded accessor) with the overlay/tiling predicates evaluated on the implementation's output and model equality incl. comments.",
    "design_ref": "§5 C14",
    "note": "Trusted: Lean kernel + standard axioms; hand-written model OH/Model/Schedule.lean; harness/driver; the hook accessor. The former defect D6 (from_ranges lost nested ranges) is repaired in /repo (fix: 656bbfa) and the model follows the repaired code; `fromRangesBuggy_covers_fails` keeps the refutation of the old code. Not proved (driver only): exact comments of iterated ranges; the strongest 'isolated range keeps its comments' clause.",
    "technique": "Lean 4 theorems (fun_induction + grind, list induction) on a hand-written model + exhaustive small-grid and random history correspondence",
}
CLAIMS["C15"] = {
    "text": "All clauses of C15 are Lean theorems about the model of CompactCalendar for every insertion history of valid dates (no panic, window invariant, abstraction = inserted set, insert reports newness, contains/count/ordered iteration/first_after = sorted set for any query date, structural equality = set equality on reachable values, deserialize(serialize c ++ rest) = (c, rest) and its stream version). Tie to the code: histories replayed on the real crate and compared step by step with a plain sorted-set oracle and with the model, incl. permuted histories, concatenated/truncated/corrupted streams and the month/year bit operations.",
    "design_ref": "§5 C15",
    "note": "Trusted: Lean kernel + standard axioms; hand-written model OH/Model/CompactCalendar.lean (Nat masks with testBit/or/shift, little-endian bytes); harness/driver. Modelled not verified: chrono date validity, VecDeque, u32 bit intrinsics. Observed outside the property: deserialize accepts arbitrary bytes (such calendars can panic later); insert far from the window allocates every year in the gap.",
    "technique": "Lean 4 theorems (bit lemmas, foldl induction over histories) on a hand-written model + history correspondence against a sorted-set oracle",
}
CLAIMS["C01"] = {
    "text": "The documented semantics are written as an executable, declarative Lean specification (OH/Spec/Rules.lean: selector predicates with existential year instances, pointwise rule combination, spans continued past midnight); the property predicate c01Holds (pointwise equality on all 1440 minutes) is evaluated on the implementation's schedule_at output at run time, and the hand-written model of the evaluator (tied to the code by correspondence, 0 disagreements) mirrors the repaired code. Lean theorems so far cover the outside-range clauses, independence from the bound, 'holidays only from the context' and closed forms of selector predicates; the refinement theorem model ⊑ spec is under construction — until it lands this check is a proof-backed specification oracle, not a full proof, and says so.",
    "design_ref": "§5 C01",
    "note": "Trusted: the hand-written specification (adopts the code's reading where the property text is silent, listed in the file); the model; chrono tie by the chr.* suite; harness/driver. Six genuine defects were repaired in /repo (D10/D19, D11, D12, D18 and the hint defects) and one is an open known finding (D20-dated-window, decidable class on the rule). Out of scope by definition: dated ranges from a yearless date to a date with a year (no documented meaning).",
    "technique": "Lean 4 executable specification + theorems on a hand-written model, property predicate evaluated on the implementation's output, differential correspondence",
}
ALL = [f"C{i:02d}" for i in range(1, 21)]
NOT_APPLICABLE = {p: PENDING for p in ALL if p not in CLAIMS}
