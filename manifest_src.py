HOOK_COMMITS = []
NOTES = "See DESIGN.md. Every check is `./check.py <ID>`: Lean build + axiom audit of OH/Props/<ID>.lean, cargo build of the harness against /repo's working tree, correspondence + property oracle through the compiled Lean driver. known-findings.txt lists open findings and fixed defects."
PENDING = "not claimed yet: model/proofs under construction in this framework (see DESIGN.md §7 build order); the Lean technique applies, nothing is claimed until the check exists"
CLAIMS = {
    "C19": {
        "text": "Every clause of C19 is a Lean theorem about the model of ExtendedTime, proved for all inputs (omega after unfolding); the model is tied to the Rust type by exhaustive enumeration of the finite input domains (all u8 x u8, all u16, all values x all i8, values x 300-600 i16 offsets; thorough: all i16), so for this property the tie is itself complete.",
        "design_ref": "§5 C19",
        "note": "Trusted: Lean kernel + {propext, Classical.choice, Quot.sound}; the hand-written model OH/Model/ExtendedTime.lean (integer conversions written out as range tests); the harness and driver. Modelled not verified: chrono NaiveTime::from_hms_opt, std formatting of `{:02}`.",
        "technique": "Lean 4 theorems (omega) on a hand-written model + exhaustive correspondence with the Rust type",
    },
}
CLAIMS["C20"] = {
    "text": "Every clause of C20 is a Lean theorem about the model of UniqueSortedVec, for any element type with a lawful total order and all operands (31 theorems: From<Vec>, union incl. closed form and algebraic laws, contains, find_first_following, reachability closure); tie to the code: exhaustive small-alphabet enumeration through the real type plus random and UTF-8 string cases, spec predicate (plain list/set operations) evaluated on the implementation's output.",
    "design_ref": "§5 C20",
    "note": "Trusted: Lean kernel + {propext, Quot.sound}; hand-written model OH/Model/SortedVec.lean; harness/driver. Modelled not verified: sort_unstable+dedup, slice::binary_search (contract proved to determine the result uniquely on sorted input). Cannot exhibit: stack exhaustion of the recursive union on ~60k interleaved elements (observed as an abort in a manual probe, far beyond comment-list sizes).",
    "technique": "Lean 4 theorems (induction, fun_induction) on a hand-written model + exhaustive/random correspondence",
}
CLAIMS["C14"] = {
    "text": "All clauses of C14 are Lean theorems about the model of Schedule for arbitrary (overlapping, nested, adjacent, empty, inverted) inputs and any finite sequence of from_ranges/addition: WF invariant, from_ranges = union of inputs, overlay semantics of addition (most recent covering schedule wins), closure over every API-reachable schedule, iteration = gap-free alternating tiling with closed in the holes and no panic. Tie to the code: histories executed on the real type (raw ranges through the guarded accessor) with the overlay/tiling predicates evaluated on the implementation's output and model equality incl. comments.",
    "design_ref": "§5 C14",
    "note": "Trusted: Lean kernel + standard axioms; hand-written model OH/Model/Schedule.lean; harness/driver; the hook accessor. The former defect D6 (from_ranges lost nested ranges) is repaired in /repo (fix: 656bbfa) and the model follows the repaired code; `fromRangesBuggy_covers_fails` keeps the refutation of the old code. Not proved (driver only): exact comments of iterated ranges; the strongest 'isolated range keeps its comments' clause.",
    "technique": "Lean 4 theorems (fun_induction + grind, list induction) on a hand-written model + exhaustive small-grid and random history correspondence",
}
ALL = [f"C{i:02d}" for i in range(1, 21)]
NOT_APPLICABLE = {p: PENDING for p in ALL if p not in CLAIMS}
