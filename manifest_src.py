HOOK_COMMITS = []
NOTES = "See DESIGN.md. Every check is `./check.py <ID>`: Lean build + axiom audit of OH/Props/<ID>.lean, cargo build of the harness against /repo's working tree, correspondence + property oracle through the compiled Lean driver. known-findings.txt lists open findings and fixed defects."
PENDING = "not claimed yet: model/proofs under construction in this framework (see DESIGN.md §7 build order); the Lean technique applies, nothing is claimed until the check exists"
CLAIMS = {
    "C19": {
        "text": "Every clause of C19 is a Lean theorem about the model of ExtendedTime, proved for all inputs (omega after unfolding); the model is tied to the Rust type by exhaustive enumeration of the finite input domains (all u8 x u8, all u16, all values x all i8, values x 300-600 i16 offsets; thorough: all i16), so for this property the tie is itself complete.",
        "design_ref": "§5 C19",
        "note": "Trusted: Lean kernel + {propext, Classical.choice, Quot.sound}; the hand-written model OH/Model/ExtendedTime.lean (integer conversions written out as range tests); the harness and driver. Modelled not verified: chrono NaiveTime::from_hms_opt, std formatting of `{:02}`.",
        "technique": "Lean 4 theorems (omega) on a hand-written model + exhaustive correspondence with the Rust type",
    },
}
CLAIMS["C20"] = {
    "text": "Every clause of C20 is a Lean theorem about the model of UniqueSortedVec, for any element type with a lawful total order and all operands (31 theorems: From<Vec>, union incl. closed form and algebraic laws, contains, find_first_following, reachability closure); tie to the code: exhaustive small-alphabet enumeration through the real type plus random and UTF-8 string cases, spec predicate (plain list/set operations) evaluated on the implementation's output.",
    "design_ref": "§5 C20",
    "note": "Trusted: Lean kernel + {propext, Quot.sound}; hand-written model OH/Model/SortedVec.lean; harness/driver. Modelled not verified: sort_unstable+dedup, slice::binary_search (contract proved to determine the result uniquely on sorted input). Cannot exhibit: stack exhaustion of the recursive union on ~60k interleaved elements (observed as an abort in a manual probe, far beyond comment-list sizes).",
    "technique": "Lean 4 theorems (induction, fun_induction) on a hand-written model + exhaustive/random correspondence",
}
CLAIMS["C14"] = {
    "text": "All clauses of C14 are Lean theorems about the model of Schedule for arbitrary (overlapping, nested, adjacent, empty, inverted) inputs and any finite sequence of from_ranges/addition: WF invariant, from_ranges = union of inputs, overlay semantics of addition (most recent covering schedule wins), closure over every API-reachable schedule, iteration = gap-free alternating tiling with closed in the holes and no panic. Tie to the code: histories executed on the real type (raw ranges through the guarded accessor) with the overlay/tiling predicates evaluated on the implementation's output and model equality incl. comments.",
    "design_ref": "§5 C14",
    "note": "Trusted: Lean kernel + standard axioms; hand-written model OH/Model/Schedule.lean; harness/driver; the hook accessor. The former defect D6 (from_ranges lost nested ranges) is repaired in /repo (fix: 656bbfa) and the model follows the repaired code; `fromRangesBuggy_covers_fails` keeps the refutation of the old code. Not proved (driver only): exact comments of iterated ranges; the strongest 'isolated range keeps its comments' clause.",
    "technique": "Lean 4 theorems (fun_induction + grind, list induction) on a hand-written model + exhaustive small-grid and random history correspondence",
}
CLAIMS["C15"] = {
    "text": "All clauses of C15 are Lean theorems about the model of CompactCalendar for every insertion history of valid dates (no panic, window invariant, abstraction = inserted set, insert reports newness, contains/count/ordered iteration/first_after = sorted set for any query date, structural equality = set equality on reachable values, deserialize(serialize c ++ rest) = (c, rest) and its stream version). Tie to the code: histories replayed on the real crate and compared step by step with a plain sorted-set oracle and with the model, incl. permuted histories, concatenated/truncated/corrupted streams and the month/year bit operations.",
    "design_ref": "§5 C15",
    "note": "Trusted: Lean kernel + standard axioms; hand-written model OH/Model/CompactCalendar.lean (Nat masks with testBit/or/shift, little-endian bytes); harness/driver. Modelled not verified: chrono date validity, VecDeque, u32 bit intrinsics. Observed outside the property: deserialize accepts arbitrary bytes (such calendars can panic later); insert far from the window allocates every year in the gap.",
    "technique": "Lean 4 theorems (bit lemmas, foldl induction over histories) on a hand-written model + history correspondence against a sorted-set oracle",
}
CLAIMS["C01"] = {
    "text": "The documented semantics are written as an executable, declarative Lean specification (OH/Spec/Rules.lean: selector predicates with existential year instances, pointwise rule combination, spans continued past midnight); the property predicate c01Holds (pointwise equality on all 1440 minutes) is evaluated on the implementation's schedule_at output at run time, and the hand-written model of the evaluator (tied to the code by correspondence, 0 disagreements) mirrors the repaired code. Lean theorems so far cover the outside-range clauses, independence from the bound, 'holidays only from the context' and closed forms of selector predicates; the refinement theorem model ⊑ spec is under construction — until it lands this check is a proof-backed specification oracle, not a full proof, and says so.",
    "design_ref": "§5 C01",
    "note": "Trusted: the hand-written specification (adopts the code's reading where the property text is silent, listed in the file); the model; chrono tie by the chr.* suite; harness/driver. Six genuine defects were repaired in /repo (D10/D19, D11, D12, D18 and the hint defects) and one is an open known finding (D20-dated-window, decidable class on the rule). Out of scope by definition: dated ranges from a yearless date to a date with a year (no documented meaning).",
    "technique": "Lean 4 executable specification + theorems on a hand-written model, property predicate evaluated on the implementation's output, differential correspondence",
}
_LB = 'Layer B (EnvOK for the real day level: daily schedules tile the day — available from C14 — and next_change_hint never jumps over a day whose schedule differs) is proved only for the empty expression so far; for other expressions the theorems are `…_partial` under that hypothesis, which the run-time oracle and the correspondence (model = implementation on every generated operation, model mirrors the hint code) stand in for. '
CLAIMS["C02"] = {
    "text": "Layer A is a complete Lean proof (OH/Props/C02A.lean): for ANY day level meeting EnvOK, iter_range terminates without panic and returns THE list of maximal constant runs of the pointwise state over [min from END, min to END) — tiling, kind at every sub-minute instant, adjacent kinds differ, no change skipped, uniqueness — by fun_induction over consume_until_next_kind/next/collect with well-founded termination. " + _LB + "The same clauses are evaluated on the implementation's stream at run time.",
    "design_ref": "§5 C02",
    "note": "Trusted: Lean kernel + standard axioms; hand-written model OH/Model/{Eval,Iter}.lean tied by correspondence; harness/driver. Former defects D7, D8, D9 (hint/is_constant) repaired in /repo. Open finding D16 (empty interval from a local span inside a DST gap, zone contexts only).",
    "technique": "Lean 4 theorems (fun_induction, invariants, uniqueness of runs) over an abstract day level + run-time oracle on the implementation's stream + differential correspondence",
}
CLAIMS["C03"] = {
    "text": "From Layer A (complete Lean proof for any day level meeting EnvOK): state(t) is the pointwise state for every bound; next_change is the exact next change (semantic definition IsNextChange, proved unique): some c => t < c < 10000-01-01, constant on [t, c), different at c; none <=> constant until 10000-01-01; identical inside one interval. " + _LB + "Oracle on the implementation: state vs the day's schedule, the three predicates, the next_change clauses by day scan, pairs of instants in one interval.",
    "design_ref": "§5 C03",
    "note": "Trusted as for C02. The former defect 'state closed during the minute before clocks are set back' (zone contexts) is repaired in /repo.",
    "technique": "Lean 4 corollaries of the iterator theorems + run-time oracle + correspondence",
}
CLAIMS["C08"] = {
    "text": "Proved without any hypothesis on the day level or the bound: no interval starts before the requested start or ends after min(requested end, 10000-01-01T00:00); next_change never returns an instant at or beyond 10000-01-01; the schedule of every day outside 1900-01-01..9999-12-31 is empty and state is closed from 10000-01-01 on. The clause 'from before 1900 next_change is the first non-closed instant from 1900-01-01 on' follows from C03 under the Layer B hypothesis and is checked by the oracle.",
    "design_ref": "§5 C08",
    "note": "Trusted as for C02.",
    "technique": "Lean 4 theorems (unconditional window lemmas) + run-time oracle around both bounds + correspondence",
}
CLAIMS["C16"] = {
    "text": "From Layer A, for EVERY bound B (negative and saturating ones included) and any day level meeting EnvOK: state is unchanged; next_change returns the exact answer or none, exact whenever the exact change lies at most B-24h after the instant, none whenever it lies more than B after it, none when the exact answer is none; negative bounds always answer none. " + _LB + "Oracle: exact (windowed) vs bounded answers with bounds placed around both thresholds.",
    "design_ref": "§5 C16",
    "note": "Trusted as for C02. The former defects (bound < -1 day: endless stream; bound near TimeDelta::MAX: panic) are repaired in /repo; only the first item of a bounded stream is in scope, as the property says.",
    "technique": "Lean 4 corollaries of the iterator theorems with both bound tests + run-time oracle + correspondence",
}
CLAIMS["C17"] = {
    "text": "Proved: every interval, in particular the first, carries the comments of the schedule period in force at its first instant (Layer A, any day level meeting EnvOK); comment lists of from_ranges/addition/iter results are well-formed and drawn from the inputs and an untouched range keeps exactly its comments (C14); union keeps sorted-unique (C20); outside the supported range the day has one closed range without comments. The expression-level clauses (provenance from a rule applying on d or d-1, single-rule exactness) are evaluated on the implementation's output with the specification's `applies`; they are not yet theorems.",
    "design_ref": "§5 C17",
    "note": "Trusted as for C02 and C14. Observation (not a violation of C17 as stated): Schedule::insert hands the comments of an overwritten range to the overwriting one.",
    "technique": "Lean 4 theorems (iterator + schedule comment lemmas) + run-time oracle on comments + correspondence incl. comments",
}
CLAIMS["C04"] = {
    "text": "Evaluation part. The model returns Except with one error per Rust panic site, so 'no panic' is a statement about the model; proved: the time-domain iterator is total and panic-free for any day level meeting EnvOK and EVERY interval-size bound (well-founded termination of consume, the progress check of collect never fires), the schedule iterator's assert is unreachable on API-built schedules, easter / count_days_in_month / time-span resolution / saturating offsets are total. " + _LB + "Every evaluator entry point runs under catch_unwind on extreme expressions, instants (chrono MIN/MAX, both range bounds) and bounds; any panic or endless stream is a violation. Parser part: see notes (checked by the parser suite; D1 open until repaired).",
    "design_ref": "§5 C04",
    "note": "Repaired in /repo: D2 (offset overflow), D3 (time span resolution), D4 (u16 overflow), D5 (state at MAX), D22 (bound range). Cannot exhibit: stack exhaustion (recursive union/addition), allocation failure, panics inside dependencies (tz lookup, solar computation) other than by running them. Not yet proved: absence of .error in scheduleAt/nextChangeHint under ParserWF (remaining sites: zero step, nth index — excluded by the parser).",
    "technique": "Lean 4 totality theorems on a model with explicit panic outcomes + catch_unwind harness on extremes + correspondence",
}
CLAIMS["C09"] = {
    "text": "Lean theorems about a zone model (finite transition table) for every well-formed table: naive/datetime laws (valid, ambiguous -> later, gap -> first valid instant), termination and no panic of the retry loop, bounds never go backwards, and localized state/next_change/iter_range = the NoLocation evaluation at the wall-clock time with results mapped back by datetime — the input's own zone is irrelevant. Tie to the code: transition tables extracted from chrono-tz travel with every operation; the clauses are evaluated on the implementation's instants and the localized results are compared with the implementation's own NoLocation run.",
    "design_ref": "§5 C09",
    "note": "Repaired in /repo: state during the minute before clocks are set back (b0d5731), datetime overshooting gaps that do not end on a whole minute (walk-back). Open: zone-not-ok (a gap directly followed by a fold, e.g. Europe/Lisbon 1992: result one hour after the first valid instant); the empty interval from a local span inside a gap is C02's clause (D16, open there). Cannot exhibit: the correctness of the tz database itself.",
    "technique": "Lean 4 theorems on a transition-table zone model + correspondence with chrono-tz tables + clauses evaluated on the implementation's instants",
}
CLAIMS["C07"] = {
    "text": "FULL Lean theorem (C07_normalize_preserves): for every expression in the parser's range (ExprOK), every context, every day and every minute, the day schedule of the normalized expression has the same state as the original's — by paving laws proved by induction on the dimension, canonical selector membership = the evaluator model's filters (with the real calendar lemmas), fold of the canonical prefix = pointwise reading of the rule combination, emitted rules fold back to the same function, the untouched tail cannot tell the prefixes apart. Tie to the code: normalize() of the real code compared as AST with the model on every line, and both implementation ASTs evaluated and compared per minute.",
    "design_ref": "§5 C07",
    "note": "Trusted: Lean kernel + standard axioms; hand-written models OH/Model/{Normalize,Eval}.lean; harness/driver. Repaired in /repo on the way: D13 (is_val early return, 18307f0), D12, D18 (the proof needed them). Comment-only differences (the evaluator hands the comments of an overwritten range to the overwriting one, the paving replaces) are not state differences and are tagged, not failed.",
    "technique": "Lean 4 theorems (type-class induction on the paving dimension, refinement of the rule fold) + AST correspondence of normalize + per-minute meaning oracle",
}
CLAIMS["C13"] = {
    "text": "FULL Lean theorems: normalize(normalize e) = normalize e, determinism, no panic/overflow and termination of canonical_to_seq (proved measure), normal form within the parser's ranges; popFilter depends only on the function the paving denotes. Tie to the code: idempotence and determinism checked on the implementation's ASTs, AST equality with the model. The 'printable and reparseable' clause is evaluated by reparsing the printed normal form: open finding D21 (a year with several month ranges has no sentence in the grammar).",
    "design_ref": "§5 C13",
    "note": "Trusted as for C07. D13 repaired in /repo (it refuted idempotence before: C13_idempotent_before_repair_fails). Open: D21-normalform-year-months.",
    "technique": "Lean 4 theorems on the normalization model + AST-level correspondence and idempotence oracle",
}
CLAIMS["C10"] = {
    "text": "Lean theorems: for ANY well-formed holiday database the decode pipeline of Country::holidays returns, per country, exactly the dates the build pipeline of build.rs was given for that country's code and nothing else (decode_encode, via C15's serialization framing theorem), hence embedded contains <-> listed in the source file, and PH/SH selectors see exactly these dates; the country enum, ALL, iso_code and FromStr tables are regenerated from generated.rs on every run by a translator and proved mutually consistent by kernel-checked decide. Tie to the code is exhaustive: every country x kind x every day 1990..2085 compared bit for bit between the embedded calendars and the model pipeline run on the two text files.",
    "design_ref": "§5 C10",
    "note": "Trusted: Lean kernel + standard axioms; translator countries2lean.py; models OH/Model/{HolidayDb,Country,CompactCalendar}.lean; harness/driver (the driver reads the data files itself). Assumed: inflate(deflate(x)) = x; chrono date parsing for the shape present in the files. Latent (not reachable with the shipped files, modelled bug for bug): an empty data file would panic in Country::holidays; a ',' in a region name would shift the following calendars.",
    "technique": "Lean 4 theorems (induction over regions, decide +kernel over generated tables) + translator + exhaustive correspondence with the embedded data",
}
ALL = [f"C{i:02d}" for i in range(1, 21)]
NOT_APPLICABLE = {p: PENDING for p in ALL if p not in CLAIMS}
