#!/usr/bin/env python3
"""CPython side of property C12: executes `py.*` operation lines on the freshly built extension
module `opening_hours` and prints `<op line> => <canonical result tokens>`.

    pydrive.py <dir containing opening_hours.so>  < ops  > results

The line format is documented in harness/src/py.rs.  Standard library only.  Every call runs under
`except BaseException`, so that a Rust panic (`pyo3_runtime.PanicException`, a BaseException) is
reported by its class name like any other exception.
"""
import datetime as _dt
import os
import struct
import sys
import zoneinfo

MODDIR = sys.argv[1] if len(sys.argv) > 1 else "."
sys.path.insert(0, MODDIR)
import opening_hours  # noqa: E402
from opening_hours import OpeningHours, State  # noqa: E402

NS_DAY = 86_400 * 10**9

# Sanity runs of the SUITE only (never in a check): OH_PY_MUTANT=n makes this driver misreport what the
# binding returned, as a defective binding would, to show that the verdicts catch it.
#   1 next_change results moved to UTC            2 open end reported as datetime.max instead of None
#   3 ParserError raised before the coordinates are looked at
#   4 a naive input on a context with a time zone is read as UTC
#   5 validate() always True                      6 is_open() negated
MUT = int(os.environ.get("OH_PY_MUTANT", "0"))


def dec(s):
    if s == "%":
        return ""
    out = bytearray()
    b = s.encode("ascii")
    i = 0
    while i < len(b):
        if b[i] == 0x25 and i + 3 <= len(b):
            out.append(int(b[i + 1 : i + 3], 16))
            i += 3
        else:
            out.append(b[i])
            i += 1
    return out.decode("utf-8")


def enc(s):
    if s == "":
        return "%"
    out = []
    for b in s.encode("utf-8", "surrogatepass"):
        if 0x20 < b < 0x7F and b not in (0x25, 0x7C, 0x3D):
            out.append(chr(b))
        else:
            out.append("%%%02X" % b)
    return "".join(out)


def naive_of(day, ns):
    day, ns = int(day), int(ns)
    us, rem = divmod(ns, 1000)
    assert rem == 0, "sub-microsecond input"
    d = _dt.date.fromordinal(day)
    s, us = divmod(us, 10**6)
    return _dt.datetime(d.year, d.month, d.day, s // 3600, s // 60 % 60, s % 60, us)


def inst_of(dt):
    """`day:ns` of the wall-clock reading"""
    ns = ((dt.hour * 3600 + dt.minute * 60 + dt.second) * 10**6 + dt.microsecond) * 1000
    return "%d:%d" % (dt.toordinal(), ns)


OMIT = object()


def parse_dt(tok):
    """-> (value or OMIT, independent utc offset in seconds or None)"""
    if tok == "-":
        return OMIT, None
    k, rest = tok.split(":", 1)
    if k == "N":
        return naive_of(*rest.split(":")), None
    if k == "U":
        return naive_of(*rest.split(":")).replace(tzinfo=_dt.timezone.utc), None
    if k == "F":
        secs, d, n = rest.split(":")
        return naive_of(d, n).replace(tzinfo=_dt.timezone(_dt.timedelta(seconds=int(secs)))), None
    if k == "A":
        zone, fold, d, n = rest.split(":")
        v = naive_of(d, n).replace(tzinfo=zoneinfo.ZoneInfo(zone), fold=int(fold))
        try:
            off = int(v.utcoffset().total_seconds())
        except BaseException:  # noqa: BLE001
            off = None
        return v, off
    raise ValueError(tok)


def show_dt(v):
    if v is None:
        return "none"
    if not isinstance(v, _dt.datetime):
        return "X:" + enc(repr(v))
    if v.tzinfo is None:
        return "N:" + inst_of(v)
    key = getattr(v.tzinfo, "key", None)
    if not isinstance(v.tzinfo, zoneinfo.ZoneInfo) or key is None:
        return "X:" + enc(repr(v))
    return "A:%s:%s:%d" % (key, inst_of(v), int(v.utcoffset().total_seconds()))


def show_state(s):
    if s == State.OPEN:
        return "o"
    if s == State.CLOSED:
        return "c"
    if s == State.UNKNOWN:
        return "u"
    return "X:" + enc(repr(s))


def exc_name(e):
    return type(e).__name__


def parse_ctor(a):
    kw = {}
    oh = dec(a[0])
    if a[1] != "-":
        t = a[1]
        if t == "U":
            kw["timezone"] = _dt.timezone.utc
        elif t.startswith("F:"):
            kw["timezone"] = _dt.timezone(_dt.timedelta(seconds=int(t[2:])))
        elif t.startswith("S:"):
            kw["timezone"] = dec(t[2:])
        else:
            kw["timezone"] = zoneinfo.ZoneInfo(t[2:])
    if a[2] != "-":
        kw["country"] = dec(a[2][1:])
    if a[3] != "-":
        t = a[3]
        if t.startswith("b:"):
            x, y = t[2:].split(",")
            kw["coords"] = (struct.unpack(">d", bytes.fromhex(x))[0], struct.unpack(">d", bytes.fromhex(y))[0])
        else:
            x, y = t[2:].split(",")
            kw["coords"] = (int(x), int(y))
    for name, t in (("auto_country", a[4]), ("auto_timezone", a[5])):
        if t == "-":
            kw[name] = None
        elif t == "1":
            kw[name] = True
        elif t == "0":
            kw[name] = False
    return oh, kw


def call(f, *args):
    """call with the OMIT arguments left out (only trailing positions are ever omitted or None-filled)"""
    args = list(args)
    while args and args[-1] is OMIT:
        args.pop()
    args = [None if x is OMIT else x for x in args]
    return f(*args)


def offs(*os):
    return "i=" + ",".join("-" if o is None else str(o) for o in os)


def run(op, a):
    if op == "py.validate":
        try:
            r = opening_hours.validate(dec(a[0]))
            if MUT == 5:
                r = True
        except BaseException as e:  # noqa: BLE001
            return "E call " + exc_name(e)
        return "R %d" % (1 if r is True else 0 if r is False else 9)
    if op == "py.enum":
        v = [State.OPEN, State.CLOSED, State.UNKNOWN]
        try:
            order = v[0] < v[1] < v[2] and not (v[1] < v[0]) and v[2] > v[0] and v[0] <= v[0]
            eq = v[0] == State.OPEN and v[0] != v[1] and v[1] != v[2]
            hs = hash(v[0]) == hash(State.OPEN) and len({State.OPEN, State.OPEN, State.CLOSED}) == 2
            return "R %s %s %s %d%d%d" % (str(v[0]), str(v[1]), str(v[2]), order, eq, hs)
        except BaseException as e:  # noqa: BLE001
            return "E call " + exc_name(e)
    if op == "py.valctor":
        s = dec(a[0])
        try:
            v = opening_hours.validate(s)
        except BaseException as e:  # noqa: BLE001
            return "E call " + exc_name(e)
        try:
            OpeningHours(s)
            c = "ok"
        except BaseException as e:  # noqa: BLE001
            c = exc_name(e)
        return "R %d %s" % (1 if v is True else 0 if v is False else 9, c)
    oh, kw = parse_ctor(a)
    rest = a[6:]
    try:
        if MUT == 3 and not opening_hours.validate(oh):
            raise opening_hours.ParserError("mutant")
        x = OpeningHours(oh, **kw)
    except BaseException as e:  # noqa: BLE001
        return "E ctor " + exc_name(e)
    if MUT == 4 and "timezone" in kw and rest and rest[0].startswith("N:"):
        rest = ["A:UTC:0:" + rest[0][2:]] + list(rest[1:])
    if op == "py.ctor":
        return "R ok"
    if op == "py.str":
        return "R " + enc(str(x))
    if op == "py.repr":
        r = repr(x)
        try:
            y = eval(r, {"OpeningHours": OpeningHours})  # noqa: S307
            ev = "1" if str(y) == str(x) else "0"
        except BaseException as e:  # noqa: BLE001
            ev = "E:" + exc_name(e)
        return "R %s %s %s" % (enc(str(x)), ev, enc(r))
    if op == "py.eq":
        y = OpeningHours(oh, **kw)
        try:
            hx, hy = hash(x), hash(y)
            hs = "%d%d" % (hx == hash(x), hx == hy)
        except BaseException as e:  # noqa: BLE001
            hs = "E:" + exc_name(e)
        return "R %d%d%d %s" % (x == x, x == y, x != y, hs)
    if op == "py.state":
        t, o = parse_dt(rest[0])
        try:
            s = call(x.state, t)
            b = (call(x.is_open, t), call(x.is_closed, t), call(x.is_unknown, t))
            if MUT == 6:
                b = (not b[0], b[1], b[2])
        except BaseException as e:  # noqa: BLE001
            return "E call " + exc_name(e)
        bits = "".join("1" if v is True else "0" if v is False else "9" for v in b)
        return "R %s %s %s" % (show_state(s), bits, offs(o))
    if op == "py.next":
        t, o = parse_dt(rest[0])
        try:
            r = call(x.next_change, t)
            if MUT == 1 and r is not None and r.tzinfo is not None:
                r = r.astimezone(zoneinfo.ZoneInfo("UTC"))
        except BaseException as e:  # noqa: BLE001
            return "E call " + exc_name(e)
        return "R %s %s" % (show_dt(r), offs(o))
    if op == "py.normalize":
        t, o = parse_dt(rest[0])
        try:
            n = x.normalize()
            r = call(n.next_change, t)
        except BaseException as e:  # noqa: BLE001
            return "E call " + exc_name(e)
        return "R %s %s %s" % (enc(str(n)), show_dt(r), offs(o))
    if op == "py.intervals":
        s, o0 = parse_dt(rest[0])
        e_, o1 = parse_dt(rest[1])
        cap = int(rest[2])
        try:
            it = call(x.intervals, s, e_)
        except BaseException as e:  # noqa: BLE001
            return "E call " + exc_name(e)
        items = []
        cut = False
        k = 0
        while True:
            try:
                item = next(it)
            except StopIteration:
                break
            except BaseException as e:  # noqa: BLE001
                return "E iter " + exc_name(e)
            if k == cap:
                cut = True
                break
            k += 1
            st, en, kind, comments = item
            if MUT == 2 and en is None:
                en = _dt.datetime.max
            items.append("%s %s %s %d%s" % (show_dt(st), show_dt(en), show_state(kind), len(comments), "".join(" " + enc(c) for c in comments)))
        return "R %s %d%s %s" % ("cut" if cut else "all", len(items), "".join(" " + i for i in items), offs(o0, o1))
    return "harness-bad-op"


def main():
    out = sys.stdout
    for line in sys.stdin:
        line = line.rstrip("\n")
        if not line.strip():
            continue
        line = line.split(" => ")[0].rstrip()
        if line.startswith("#"):
            out.write(line + "\n")
            continue
        toks = line.split(" ")
        try:
            r = run(toks[0], toks[1:])
        except BaseException as e:  # noqa: BLE001  (a driver problem, not a verdict on the code)
            r = "driver-error " + exc_name(e) + " " + enc(str(e))
        out.write("%s => %s\n" % (line, r))
    out.flush()


if __name__ == "__main__":
    main()
