#!/usr/bin/env python3
"""Orchestration of the C12 correspondence (Python bindings vs. Rust core vs. binding model).

    run_py_suite.py <quick|thorough> <seed> [--replay FILE] [--out DIR] [--show-fails] [-j N] [--no-build]

 (a) builds the extension module from /repo's working tree
       cargo build -p opening-hours-py --lib --offline --target-dir $OH_PY_TARGET
     and copies it as `opening_hours.so` into $OH_PY_TARGET/pymod;
 (b) lets the harness generate the operation lines and execute them on the Rust core
       $OH_HARNESS run py <tier> <seed>          (or `exec` on the lines of --replay FILE);
 (c) executes the SAME lines in CPython on the extension module (py/pydrive.py, N worker processes),
     joins both outputs line by line as  `<op line> => <python> || <rust core> ## <facts>`
     and pipes them to the Lean driver $OH_DRIVER; the verdict lines go to stdout, one per operation.

Environment (defaults in brackets):
  OH_PY_TARGET [/verif/.cache/py-target]   cargo target dir of the extension module
  OH_HARNESS   [/verif/.cache/harness-target/release/ohharness]
  OH_DRIVER    [/verif/lean/.lake/build/bin/ohdriver]
  OH_REPO      [/repo]
Standard library only.  Exit status 0 unless a tool could not be run (verdicts are for the caller to tally).
"""
import argparse
import os
import shutil
import subprocess
import sys
import time

HERE = os.path.dirname(os.path.abspath(__file__))


def env(name, default):
    return os.environ.get(name, default)


def log(msg):
    sys.stderr.write("[run_py_suite] %s\n" % msg)
    sys.stderr.flush()


def build_extension(target, repo):
    t0 = time.time()
    r = subprocess.run(
        ["cargo", "build", "-p", "opening-hours-py", "--lib", "--offline", "--target-dir", target],
        cwd=repo,
        stdout=subprocess.PIPE,
        stderr=subprocess.STDOUT,
        text=True,
    )
    if r.returncode != 0:
        sys.stderr.write(r.stdout)
        raise SystemExit("cargo build of opening-hours-py failed")
    src = os.path.join(target, "debug", "libopening_hours.so")
    moddir = os.path.join(target, "pymod")
    os.makedirs(moddir, exist_ok=True)
    dst = os.path.join(moddir, "opening_hours.so")
    if not os.path.exists(dst) or os.path.getmtime(dst) < os.path.getmtime(src) or os.path.getsize(dst) != os.path.getsize(src):
        tmp = dst + ".tmp%d" % os.getpid()
        shutil.copy2(src, tmp)
        os.replace(tmp, dst)
    log("extension built in %.1fs -> %s" % (time.time() - t0, dst))
    return moddir


def run_python(moddir, ops, jobs):
    """run pydrive.py on `ops` (list of lines) with `jobs` workers, keep the order"""
    jobs = max(1, min(jobs, (len(ops) + 199) // 200))
    chunks = [ops[i::jobs] for i in range(jobs)]
    penv = dict(os.environ, RUST_BACKTRACE="0", PYTHONHASHSEED="0")
    procs = []
    for ch in chunks:
        p = subprocess.Popen(
            [sys.executable, os.path.join(HERE, "pydrive.py"), moddir],
            stdin=subprocess.PIPE,
            stdout=subprocess.PIPE,
            stderr=subprocess.DEVNULL,  # panic messages of the Rust runtime
            text=True,
            env=penv,
        )
        procs.append((p, ch))
    outs = []
    # feed and collect (communicate per process; the chunks are small enough for pipes + threads-free use)
    import threading

    results = [None] * len(procs)

    def work(k):
        p, ch = procs[k]
        out, _ = p.communicate("".join(l + "\n" for l in ch))
        results[k] = (p.returncode, out.splitlines())

    threads = [threading.Thread(target=work, args=(k,)) for k in range(len(procs))]
    for t in threads:
        t.start()
    for t in threads:
        t.join()
    for k, (rc, lines) in enumerate(results):
        if len(lines) != len(chunks[k]):
            # the interpreter died (abort in the extension?): report what is missing as driver errors
            log("python worker %d returned %d lines for %d ops (exit %s)" % (k, len(lines), len(chunks[k]), rc))
            done = len(lines)
            for l in chunks[k][done:]:
                lines.append("%s => driver-error WorkerDied %%" % l)
        outs.append(lines)
    merged = [None] * len(ops)
    for k in range(jobs):
        for j, l in enumerate(outs[k]):
            merged[k + j * jobs] = l
    return merged


def main():
    ap = argparse.ArgumentParser()
    ap.add_argument("tier", choices=["quick", "thorough"])
    ap.add_argument("seed", type=int)
    ap.add_argument("--replay", help="file of op lines to execute instead of generating")
    ap.add_argument("--out", help="directory where the joined protocol lines are kept")
    ap.add_argument("--show-fails", action="store_true", help="print every non-ok verdict with its line on stderr")
    ap.add_argument("-j", type=int, default=min(8, os.cpu_count() or 1))
    ap.add_argument("--no-build", action="store_true", help="use the extension module as it is")
    a = ap.parse_args()

    target = env("OH_PY_TARGET", "/verif/.cache/py-target")
    harness = env("OH_HARNESS", "/verif/.cache/harness-target/release/ohharness")
    driver = env("OH_DRIVER", "/verif/lean/.lake/build/bin/ohdriver")
    repo = env("OH_REPO", "/repo")

    t0 = time.time()
    moddir = os.path.join(target, "pymod") if a.no_build else build_extension(target, repo)

    # both sides must come from the same tree: the extension was just rebuilt, the harness is the caller's job
    stale = False
    try:
        so = os.path.join(moddir, "opening_hours.so")
        stale = os.path.getmtime(harness) + 1 < os.path.getmtime(so)
    except OSError:
        pass
    if stale:
        log("WARNING: %s is older than the extension module: rebuild the harness (same /repo tree on both sides)" % harness)

    # (b) the Rust core
    if a.replay:
        with open(a.replay) as fh:
            data = fh.read()
        r = subprocess.run([harness, "exec"], input=data, stdout=subprocess.PIPE, stderr=subprocess.PIPE, text=True)
    else:
        r = subprocess.run([harness, "run", "py", a.tier, str(a.seed)], stdout=subprocess.PIPE, stderr=subprocess.PIPE, text=True)
    if r.returncode != 0:
        sys.stderr.write(r.stderr)
        raise SystemExit("harness failed")
    rust_lines = [l for l in r.stdout.splitlines() if l.strip()]
    notes = [l for l in rust_lines if l.startswith("#note")]  # other `#` lines are comments of a replay file
    rust_lines = [l for l in rust_lines if not l.startswith("#")]
    ops = [l.split(" => ")[0] for l in rust_lines]
    t1 = time.time()
    log("%d ops, rust core side %.1fs" % (len(ops), t1 - t0))

    # (c) CPython
    py_lines = run_python(moddir, ops, a.j)
    t2 = time.time()
    log("python side %.1fs (%d workers)" % (t2 - t1, a.j))

    joined = []
    for op, rl, pl in zip(ops, rust_lines, py_lines):
        rres = rl.split(" => ", 1)[1] if " => " in rl else "harness-bad-op"
        pop, pres = pl.split(" => ", 1) if " => " in pl else (op, "driver-error NoOutput %")
        if pop != op:
            pres = "driver-error Misaligned %"
        joined.append("%s => %s || %s" % (op, pres, rres))
    if a.out:
        os.makedirs(a.out, exist_ok=True)
        with open(os.path.join(a.out, "py_%s_%d.joined" % (a.tier, a.seed)), "w") as fh:
            fh.write("\n".join(joined) + "\n")

    d = subprocess.run([driver], input="\n".join(joined) + "\n", stdout=subprocess.PIPE, stderr=subprocess.PIPE, text=True)
    if d.returncode != 0:
        sys.stderr.write(d.stderr)
        raise SystemExit("driver failed")
    verdicts = d.stdout.splitlines()
    if len(verdicts) != len(joined):
        raise SystemExit("driver returned %d verdicts for %d lines" % (len(verdicts), len(joined)))
    out = sys.stdout
    for v, j in zip(verdicts, joined):
        out.write(v + "\n")
        if a.show_fails and not v.startswith("ok "):
            sys.stderr.write("%s\n    %s\n" % (v, j[:2000]))
    if stale:
        out.write("note stale-harness: the harness binary is older than the extension module\n")
    for n in notes:
        out.write("%s\n" % n[1:].strip())
    out.flush()
    log("driver %.1fs, total %.1fs" % (time.time() - t2, time.time() - t0))


if __name__ == "__main__":
    main()
