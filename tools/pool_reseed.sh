#!/bin/bash
# usage: reseed.sh <pool> <seedname> <ID>
V=$1; S=$2; ID=$3; W=/tmp/reseed-$(echo $S | tr -c 'A-Za-z0-9' '_')
git -C /repo worktree add --detach $W HEAD >/dev/null 2>&1
if ! git -C $W apply /verif/seeded/$S/patch.diff 2>/dev/null; then echo "$S: patch does not apply to HEAD (skipped)"; git -C /repo worktree remove --force $W; exit 0; fi
cd $V; VERIF_REPO=$W ./check.py $ID > .cache/reseed_$ID.log 2>&1; rc=$?
echo "$S $ID rc=$rc $(grep -E 'VIOLATION' .cache/reseed_$ID.log | cut -c1-120) $(grep -o '[0-9]*/[0-9]* obligations, [0-9]* failures, [0-9]* disagreements' .cache/reseed_$ID.log)"
git -C /repo worktree remove --force $W; rm -rf $V/.cache/shadow
