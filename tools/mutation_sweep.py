#!/usr/bin/env python3
"""
mutation_sweep.py — apply sampled mutants (tools/mutants.py) to a scratch checkout of the project, keep
those that compile and pass the project's own test suite, and run the framework's per-property checks
on them.  One JSON line per mutant is appended to notes/mutation-results.jsonl.

    tools/mutation_sweep.py --repo /tmp/repo-mut --seed 1 --count 120 [--budget-s 6000] [--ids 0012,0400]

Per mutant:
  1. apply;  `cargo build --workspace --offline -j4`            rc != 0            -> nocompile
  2. `cargo test --workspace --no-fail-fast --offline -j4 -- --skip tests::_`
     (the 256 corpus tests `tests::_00..tests::_ff` of the fuzz crate fail on the unchanged tree: they
     are skipped by name, everything else is kept)               anything fails     -> killed-by-tests
     (a test build that does not compile -> nocompile; a timeout -> killed-by-tests, note=timeout)
  3. the checks anchored on the file (mutants.ANCHORS), in order, until one exits 1 with a VIOLATION
     line (-> detected, detected_by); then the fallback checks; none -> survivor.  A check that exits
     2 (or anything but 0/1, or times out) is recorded (machinery: [...]) and the next check is tried;
     a mutant that nothing detects and on which a check broke has status machinery-error.
  4. revert (always).
Never more than one cargo/check at a time; cargo is limited to 4 jobs.
"""
import argparse
import json
import os
import re
import signal
import subprocess
import sys
import threading
import time

HERE = os.path.dirname(os.path.abspath(__file__))
VERIF = os.path.dirname(HERE)
sys.path.insert(0, HERE)
import mutants  # noqa: E402

LOGDIR = os.environ.get("MUT_LOGDIR", "/tmp/mut-logs")


def sh(cmd, cwd, timeout, env=None, logfile=None, rss_guard=None):
    """run in its own process group (a hanging test binary is killed with its children);
    returns (rc or 'timeout', output, seconds)"""
    t0 = time.time()
    e = dict(os.environ)
    e.update(env or {})
    p = subprocess.Popen(cmd, cwd=cwd, env=e, stdout=subprocess.PIPE, stderr=subprocess.STDOUT, text=True, errors="replace", start_new_session=True)
    stop = threading.Event()
    if rss_guard:
        threading.Thread(target=_rss_guard, args=(rss_guard, stop), daemon=True).start()
    try:
        out, _ = p.communicate(timeout=timeout)
        rc = p.returncode
    except subprocess.TimeoutExpired:
        try:
            os.killpg(p.pid, signal.SIGKILL)
        except OSError:
            pass
        out, _ = p.communicate()
        rc = "timeout"
    stop.set()
    if logfile:
        with open(logfile, "w", encoding="utf-8") as f:
            f.write(out)
    return rc, out, round(time.time() - t0, 1)


def _rss_guard(prefix, stop, limit_kb=4_000_000):
    """a mutant can turn a test into an allocation loop (mutant 0244 reached 19 GB in a few minutes on a
    shared machine): kill every process whose executable lives under `prefix` once it holds more than
    limit_kb of resident memory — the test binary then counts as failed (killed-by-tests)"""
    while not stop.wait(5):
        for pid in os.listdir("/proc"):
            if not pid.isdigit():
                continue
            try:
                if not os.readlink(f"/proc/{pid}/exe").startswith(prefix):
                    continue
                for line in open(f"/proc/{pid}/status"):
                    if line.startswith("VmRSS:") and int(line.split()[1]) > limit_kb:
                        os.kill(int(pid), signal.SIGKILL)
            except (OSError, ValueError):
                pass


def failed_tests(out):
    names = re.findall(r"^test (.+?) \.\.\. FAILED$", out, re.M)
    names += re.findall(r"^test (.+?) has been running for over", out, re.M)
    return sorted(set(n for n in names if not re.fullmatch(r"tests::_[0-9a-f]{2}", n)))


def run_mutant(s, repo, args):
    rec = {k: s[k] for k in ("id", "file", "line", "operator", "before", "after")}
    rec.update({"status": None, "detected_by": None, "exit_codes": {}, "seconds": {}, "machinery": []})
    t0 = time.time()
    tag = s["id"]
    subprocess.run([sys.executable, os.path.join(HERE, "mutants.py"), "revert", repo], check=True)
    p = subprocess.run([sys.executable, os.path.join(HERE, "mutants.py"), "apply", s["id"], repo], capture_output=True, text=True)
    if p.returncode != 0:
        rec["status"] = "apply-failed"
        rec["note"] = p.stderr[-300:]
        return rec
    try:
        rc, out, dt = sh(["cargo", "build", "--workspace", "--offline", "-j4"], repo, 1200, logfile=f"{LOGDIR}/{tag}-build.log")
        rec["exit_codes"]["build"], rec["seconds"]["build"] = rc, dt
        if rc != 0:
            rec["status"] = "nocompile"
            errs = re.findall(r"^error(?:\[E\d+\])?: .*$", out, re.M)
            rec["note"] = "; ".join(errs[:2])[:300]
            return rec
        rc, out, dt = sh(["cargo", "test", "--workspace", "--no-fail-fast", "--offline", "-j4", "--", "--skip", "tests::_"], repo, args.test_timeout, logfile=f"{LOGDIR}/{tag}-test.log",
                         rss_guard=os.path.join(os.path.realpath(repo), "target", "debug", "deps"))
        rec["exit_codes"]["test"], rec["seconds"]["test"] = rc, dt
        if rc != 0:
            failed = failed_tests(out)
            if rc == "timeout":
                rec["status"], rec["note"] = "killed-by-tests", "timeout (a test does not terminate)"
            elif not failed and re.search(r"^error(\[E\d+\])?: ", out, re.M) and "could not compile" in out and "test result" not in out:
                rec["status"], rec["note"] = "nocompile", "the test build does not compile"
            else:
                rec["status"] = "killed-by-tests"
            rec["failed_tests"] = failed[:12]
            rec["failed_count"] = len(failed)
            return rec
        # the project's suite passes: the framework's checks
        order = []
        for c in mutants.anchors_of(s["file"]) + mutants.FALLBACK.split():
            if c not in order:
                order.append(c)
        env = {"VERIF_REPO": repo, "CARGO_BUILD_JOBS": "4"}
        for c in order:
            rc, out, dt = sh([sys.executable, os.path.join(VERIF, "check.py"), c], VERIF, args.check_timeout, env=env, logfile=f"{LOGDIR}/{tag}-{c}.log")
            rec["exit_codes"][c], rec["seconds"][c] = rc, dt
            vio = [l for l in out.split("\n") if l.startswith("VIOLATION")]
            if rc == 1 and vio:
                rec["status"], rec["detected_by"] = "detected", c
                rec["violation"] = vio[0][:300]
                # keep the replay file's head: which clause fired
                m = re.search(r"replay=(\S+)", vio[0])
                if m and os.path.exists(m.group(1)):
                    body = open(m.group(1), encoding="utf-8", errors="replace").read().split("\n")
                    keep = [l for l in body if l.startswith(("kind:", "op:", "verdict:", "broken-obligation:", "what:"))][:5]
                    rec["evidence"] = [l[:400] for l in keep]
                break
            if rc != 0:
                tail = [l for l in out.split("\n") if l.strip() and "condarc" not in l][-12:]
                rec["machinery"].append({"check": c, "rc": rc, "log_tail": [l[:400] for l in tail]})
        if rec["status"] is None:
            rec["status"] = "machinery-error" if rec["machinery"] else "survivor"
        return rec
    finally:
        subprocess.run([sys.executable, os.path.join(HERE, "mutants.py"), "revert", repo], check=True)
        rec["seconds"]["total"] = round(time.time() - t0, 1)


def main():
    ap = argparse.ArgumentParser()
    ap.add_argument("--repo", default="/tmp/repo-mut")
    ap.add_argument("--seed", type=int, default=1)
    ap.add_argument("--count", type=int, default=100)
    ap.add_argument("--ids", default="")
    ap.add_argument("--out", default=os.path.join(VERIF, "notes", "mutation-results.jsonl"))
    ap.add_argument("--budget-s", type=int, default=10**9, help="do not start a new mutant after this many seconds")
    ap.add_argument("--test-timeout", type=int, default=900)
    ap.add_argument("--check-timeout", type=int, default=2400)
    ap.add_argument("--stop-file", default="/tmp/mut-stop")
    args = ap.parse_args()
    os.makedirs(LOGDIR, exist_ok=True)
    if mutants.dirty_files(args.repo):
        print("the checkout is not clean: revert first", file=sys.stderr)
        sys.exit(2)
    sites = mutants.enumerate_all(args.repo)
    if args.ids:
        byid = {s["id"]: s for s in sites}
        todo = [byid[i] for i in args.ids.split(",") if i in byid]
    else:
        todo = mutants.sample(sites, args.seed, args.count)
    done = set()
    if os.path.exists(args.out):
        for line in open(args.out, encoding="utf-8"):
            try:
                done.add(json.loads(line)["id"])
            except (ValueError, KeyError):
                pass
    t0 = time.time()
    for k, s in enumerate(todo):
        if s["id"] in done:
            continue
        if time.time() - t0 > args.budget_s or os.path.exists(args.stop_file):
            print("budget exhausted / stop file: stopping", flush=True)
            break
        rec = run_mutant(s, args.repo, args)
        with open(args.out, "a", encoding="utf-8") as f:
            f.write(json.dumps(rec, ensure_ascii=False) + "\n")
        print(f"[{k + 1}/{len(todo)} {time.time() - t0:6.0f}s] {rec['id']} {rec['file']}:{rec['line']} {rec['operator']} -> {rec['status']}"
              + (f" by {rec['detected_by']}" if rec["detected_by"] else "") + f"  ({rec['seconds'].get('total')}s)  | {rec['after'][:90]}", flush=True)


if __name__ == "__main__":
    main()
