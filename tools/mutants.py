#!/usr/bin/env python3
"""
mutants.py — small source mutations of the project under verification (python3 stdlib only).

    mutants.py list  [--seed N] [--count K] [--repo DIR] [--all] [--json]
    mutants.py show  <id> [--repo DIR]
    mutants.py apply <id> <repo>
    mutants.py revert <repo>                      (= git checkout -- .)

A mutation site is one token of code (never inside a comment, a doc comment, a string or char
literal, an attribute, a `#[cfg(test)]` item, a tests/ directory or an `assert!`-family macro).
The enumeration is deterministic for a given source tree: the id `NNNN` is the rank of the site in
the enumeration (files in the order of FILES, then byte offset, then operator, then variant), so an
id means the same mutant as long as the listed files are unchanged.  `apply` refuses to work on a
tree whose listed files differ from HEAD (an id would not mean what it meant in `list`).

Operators
    rel        < <-> <=, > <-> >=, == <-> !=
    const      integer literal n -> n+1, n-1
    arith      + <-> -  (also += <-> -=)
    logic      && <-> ||
    neg        drop a leading `!`
    minmax     min <-> max (also min_by(_key) <-> max_by(_key))
    earliest   earliest <-> latest
    startend   .start <-> .end (field or accessor), one occurrence
    rev        remove `.rev()`
    checked    checked_/saturating_/wrapping_/overflowing_ add <-> sub (also succ_opt <-> pred_opt)
    sat        saturating_x -> wrapping_x
    none       `Some(x)` -> `None` in a return position
    early      remove one `?`-free early `return …;` / `continue;` / `break;` statement
    range      ..= <-> ..
"""
import argparse
import json
import os
import random
import re
import subprocess
import sys

# file -> weight of the file in the stratified sample (evaluator and parser files weigh more)
FILES = [
    ("compact-calendar/src/lib.rs", 1.5),
    ("opening-hours-py/src/lib.rs", 0.7),
    ("opening-hours-py/src/types/datetime.rs", 0.3),
    ("opening-hours-py/src/types/iterator.rs", 0.3),
    ("opening-hours-py/src/types/location.rs", 0.2),
    ("opening-hours-py/src/types/state.rs", 0.2),
    ("opening-hours-py/src/types/timezone.rs", 0.1),
    ("opening-hours-syntax/src/display.rs", 0.3),
    ("opening-hours-syntax/src/extended_time.rs", 1.0),
    ("opening-hours-syntax/src/normalize/canonical.rs", 1.0),
    ("opening-hours-syntax/src/normalize/frame.rs", 0.7),
    ("opening-hours-syntax/src/normalize/mod.rs", 0.5),
    ("opening-hours-syntax/src/normalize/paving.rs", 1.5),
    ("opening-hours-syntax/src/parser.rs", 4.0),
    ("opening-hours-syntax/src/rules/day.rs", 2.0),
    ("opening-hours-syntax/src/rules/mod.rs", 1.0),
    ("opening-hours-syntax/src/rules/time.rs", 1.5),
    ("opening-hours-syntax/src/sorted_vec.rs", 1.0),
    ("opening-hours/build.rs", 0.3),
    ("opening-hours/src/context.rs", 0.5),
    ("opening-hours/src/filter/date_filter.rs", 5.0),
    ("opening-hours/src/filter/time_filter.rs", 3.0),
    ("opening-hours/src/localization/coordinates.rs", 0.5),
    ("opening-hours/src/localization/country/mod.rs", 0.5),
    ("opening-hours/src/localization/localize.rs", 1.5),
    ("opening-hours/src/opening_hours.rs", 5.0),
    ("opening-hours/src/schedule.rs", 3.0),
    ("opening-hours/src/utils/dates.rs", 1.0),
    ("opening-hours/src/utils/range.rs", 2.0),
]

# file -> the checks anchored on it (the sweep runs them in this order)
ANCHORS = {
    "compact-calendar/src/lib.rs": "C10 C15",
    "opening-hours-py/src/lib.rs": "C06 C12",
    "opening-hours-py/src/types/": "C12",
    "opening-hours-syntax/src/display.rs": "C06",
    "opening-hours-syntax/src/extended_time.rs": "C04 C06 C19",
    "opening-hours-syntax/src/normalize/": "C07 C13",
    "opening-hours-syntax/src/parser.rs": "C04 C05 C17",
    "opening-hours-syntax/src/rules/day.rs": "C01 C05 C06",
    "opening-hours-syntax/src/rules/mod.rs": "C02 C05 C06 C07 C13",
    "opening-hours-syntax/src/rules/time.rs": "C01 C05 C06",
    "opening-hours-syntax/src/sorted_vec.rs": "C17 C20",
    "opening-hours/build.rs": "C10",
    "opening-hours/src/context.rs": "C09 C10 C11 C16 C18",
    "opening-hours/src/filter/date_filter.rs": "C01 C02 C04 C08",
    "opening-hours/src/filter/time_filter.rs": "C01 C02 C04 C11",
    "opening-hours/src/localization/coordinates.rs": "C04 C11",
    "opening-hours/src/localization/country/mod.rs": "C10 C11 C18",
    "opening-hours/src/localization/localize.rs": "C04 C09 C11 C18",
    "opening-hours/src/opening_hours.rs": "C01 C02 C03 C04 C07 C08 C09 C16 C17 C18",
    "opening-hours/src/schedule.rs": "C01 C02 C04 C14 C17",
    "opening-hours/src/utils/dates.rs": "C01 C04",
    "opening-hours/src/utils/range.rs": "C01 C14 C17",
}
FALLBACK = "C02 C03 C06 C13 C12"


def anchors_of(path):
    for k, v in ANCHORS.items():
        if path == k or (k.endswith("/") and path.startswith(k)):
            return v.split()
    return []


# ----------------------------------------------------------------------------------------------
# lexical mask: which bytes are code


def item_end(src, i):
    """offset just after the item (or statement) that starts at i: through its closing brace, or
    through the first `;` outside any bracket"""
    n = len(src)
    j = i
    depth = 0
    while j < n:
        ch = src[j]
        if src.startswith("//", j):
            j = src.find("\n", j)
            j = n if j < 0 else j
            continue
        if ch == '"':
            j += 1
            while j < n and src[j] != '"':
                j += 2 if src[j] == "\\" else 1
        elif ch in "{([":
            depth += 1
        elif ch in "})]":
            depth -= 1
            if depth == 0 and ch == "}":
                j += 1
                break
        elif ch == ";" and depth == 0:
            j += 1
            break
        j += 1
    return j


def verif_only_spans(src):
    """items compiled only with `--cfg opening_hours_verif` (hooks added for the verification harness):
    a mutant there passes `cargo build`/`cargo test` trivially (the code is not compiled) and can only
    break the harness build; such sites keep their id but are never sampled"""
    return [(m.start(), item_end(src, m.end())) for m in re.finditer(r"#\[cfg\(opening_hours_verif\)\]", src)]


def code_mask(src):
    """list of booleans: True where the character is mutable code"""
    n = len(src)
    mask = [True] * n

    def blank(a, b):
        for k in range(a, min(b, n)):
            mask[k] = False

    i = 0
    while i < n:
        c = src[i]
        if src.startswith("//", i):
            j = src.find("\n", i)
            j = n if j < 0 else j
            blank(i, j)
            i = j
        elif src.startswith("/*", i):
            depth, j = 1, i + 2
            while j < n and depth:
                if src.startswith("/*", j):
                    depth += 1
                    j += 2
                elif src.startswith("*/", j):
                    depth -= 1
                    j += 2
                else:
                    j += 1
            blank(i, j)
            i = j
        elif c == '"' or (c in "rb" and re.match(r'(?:b?r#*"|b")', src[i:i + 8]) and (i == 0 or not (src[i - 1].isalnum() or src[i - 1] == "_"))):
            m = re.match(r'(b?)(r?)(#*)"', src[i:i + 16])
            raw, hashes = bool(m.group(2)), m.group(3)
            j = i + m.end()
            if raw:
                k = src.find('"' + hashes, j)
                j = n if k < 0 else k + 1 + len(hashes)
            else:
                while j < n and src[j] != '"':
                    j += 2 if src[j] == "\\" else 1
                j += 1
            blank(i, j)
            i = j
        elif c == "'":
            # char literal or lifetime
            m = re.match(r"'(?:\\(?:x[0-9a-fA-F]{2}|u\{[0-9a-fA-F_]+\}|.)|[^\\'])'", src[i:i + 14])
            if m:
                blank(i, i + m.end())
                i += m.end()
            else:
                m = re.match(r"'[A-Za-z_][A-Za-z0-9_]*", src[i:i + 40])
                j = i + (m.end() if m else 1)
                blank(i, j)
                i = j
        elif c == "#" and re.match(r"#!?\[", src[i:i + 3]):
            # attribute: through the matching bracket
            j = src.find("[", i)
            depth, k = 0, j
            while k < n:
                if src[k] == "[":
                    depth += 1
                elif src[k] == "]":
                    depth -= 1
                    if depth == 0:
                        break
                elif src[k] == '"':
                    k += 1
                    while k < n and src[k] != '"':
                        k += 2 if src[k] == "\\" else 1
                k += 1
            attr = src[i:k + 1]
            blank(i, k + 1)
            i = k + 1
            if re.search(r"cfg\s*\(\s*(?:any\s*\(\s*)?test\b", attr) and "not(test" not in attr.replace(" ", ""):
                # skip the item (or statement) the attribute is attached to
                j = item_end(src, i)
                blank(i, j)
                i = j
        else:
            i += 1
    # assert family macros: the whole invocation
    for m in re.finditer(r"\b(?:debug_)?assert(?:_eq|_ne)?!\s*\(", src):
        if not mask[m.start()]:
            continue
        depth, k = 0, m.end() - 1
        while k < n:
            if mask[k] or src[k] in "()":
                if src[k] == "(" and mask[k]:
                    depth += 1
                elif src[k] == ")" and mask[k]:
                    depth -= 1
                    if depth == 0:
                        break
            k += 1
        blank(m.start(), k + 1)
    return mask


# ----------------------------------------------------------------------------------------------
# operators: each yields (offset, length, replacement, operator, description)


def prev_nonspace(src, i):
    k = i - 1
    while k >= 0 and src[k] in " \t\n\r":
        k -= 1
    return k


def next_nonspace(src, i):
    k = i
    while k < len(src) and src[k] in " \t\n\r":
        k += 1
    return k


def match_paren(src, mask, i):
    """index of the parenthesis matching the one at i (code characters only), or -1"""
    depth = 0
    for k in range(i, len(src)):
        if not mask[k]:
            continue
        if src[k] in "([{":
            depth += 1
        elif src[k] in ")]}":
            depth -= 1
            if depth == 0:
                return k
    return -1


def sites_of(src):
    mask = code_mask(src)
    out = []

    def code(a, b):
        return all(mask[a:b])

    def add(a, ln, rep, op):
        out.append((a, ln, rep, op))

    # rel
    for m in re.finditer(r"(?<=[ \n])(<=|>=|==|!=|<|>)(?=[ \n])", src):
        if not code(m.start(), m.end()):
            continue
        t = m.group(1)
        p = prev_nonspace(src, m.start())
        if p < 0 or not (src[p].isalnum() or src[p] in ")]_?'\""):
            continue
        add(m.start(), len(t), {"<": "<=", "<=": "<", ">": ">=", ">=": ">", "==": "!=", "!=": "=="}[t], "rel")
    # const
    for m in re.finditer(r"(?<![A-Za-z0-9_.])(\d[\d_]*)((?:_?(?:u|i)(?:8|16|32|64|128|size))?)(?![A-Za-z0-9_])", src):
        if not code(m.start(), m.end()):
            continue
        if src[m.end():m.end() + 1] == "." and src[m.end() + 1:m.end() + 2].isdigit():
            continue  # float
        v = int(m.group(1).replace("_", ""))
        add(m.start(1), len(m.group(1)), str(v + 1), "const")
        if v > 0:
            add(m.start(1), len(m.group(1)), str(v - 1), "const")
    # arith
    for m in re.finditer(r"(?<=[ \n])(\+=|-=|\+|-)(?=[ \n])", src):
        if not code(m.start(), m.end()):
            continue
        ls = src.rfind("\n", 0, m.start()) + 1
        le = src.find("\n", m.start())
        line = src[ls:le if le >= 0 else len(src)]
        if re.search(r"\b(impl|dyn|where)\b", line) or re.search(r":\s*[A-Z][A-Za-z:<>']*\s*\+", line):
            continue  # trait bounds
        p = prev_nonspace(src, m.start())
        if p < 0 or not mask[p] or not (src[p].isalnum() or src[p] in ")]_?"):
            continue  # (a masked predecessor is a lifetime: `'a + Trait`)
        t = m.group(1)
        add(m.start(), len(t), {"+": "-", "-": "+", "+=": "-=", "-=": "+="}[t], "arith")
    # logic
    for m in re.finditer(r"(&&|\|\|)", src):
        if not code(m.start(), m.end()):
            continue
        p = prev_nonspace(src, m.start())
        if p < 0 or not (src[p].isalnum() or src[p] in ")]_?}"):
            continue
        if re.search(r"\b(move|return|else)$", src[max(0, p - 6):p + 1]):
            continue
        t = m.group(1)
        add(m.start(), 2, "||" if t == "&&" else "&&", "logic")
    # neg
    for m in re.finditer(r"(?<![A-Za-z0-9_)\]])!(?=[A-Za-z_(*])", src):
        if code(m.start(), m.end()):
            add(m.start(), 1, "", "neg")
    # minmax
    for m in re.finditer(r"\b(min|max)((?:_by_key|_by)?)(?=\()", src):
        if code(m.start(), m.end()):
            add(m.start(1), 3, "max" if m.group(1) == "min" else "min", "minmax")
    # earliest / latest
    for m in re.finditer(r"\b(earliest|latest)\b", src):
        if code(m.start(), m.end()):
            add(m.start(), len(m.group(1)), "latest" if m.group(1) == "earliest" else "earliest", "earliest")
    # start / end
    for m in re.finditer(r"\.(start|end)\b(?!\s*:)", src):
        if code(m.start(), m.end()):
            add(m.start(1), len(m.group(1)), "end" if m.group(1) == "start" else "start", "startend")
    # rev
    for m in re.finditer(r"\s*\.rev\(\)", src):
        if code(m.start(), m.end()):
            add(m.start(), m.end() - m.start(), "", "rev")
    # checked / saturating
    for m in re.finditer(r"\b(checked|saturating|wrapping|overflowing)_(add|sub)(?=[_(])", src):
        if code(m.start(), m.end()):
            add(m.start(2), 3, "sub" if m.group(2) == "add" else "add", "checked")
            if m.group(1) == "saturating":
                add(m.start(1), len("saturating"), "wrapping", "sat")
    for m in re.finditer(r"\b(succ|pred)_opt\b", src):
        if code(m.start(), m.end()):
            add(m.start(1), 4, "pred" if m.group(1) == "succ" else "succ", "checked")
    # none
    for m in re.finditer(r"\bSome\(", src):
        if not code(m.start(), m.end()):
            continue
        close = match_paren(src, mask, m.end() - 1)
        if close < 0:
            continue
        p = prev_nonspace(src, m.start())
        before = src[max(0, p - 7):p + 1]
        nx = next_nonspace(src, close + 1)
        after = src[nx:nx + 1]
        is_ret = bool(re.search(r"\breturn$", before))
        is_arm = before.endswith("=>")
        is_tail = before.endswith(("{", ";", "}")) and after == "}"
        if (is_ret and after == ";") or (is_arm and after in ",}") or is_tail:
            add(m.start(), close + 1 - m.start(), "None", "none")
    # early exits
    for m in re.finditer(r"(?<![A-Za-z0-9_])(return|continue|break)\b([^;{}]*);", src):
        if not code(m.start(), m.start() + len(m.group(1))):
            continue
        body = m.group(2)
        if "?" in body or "\n\n" in body:
            continue
        p = prev_nonspace(src, m.start())
        if p >= 0 and src[p] not in "{;}":
            continue  # `=> return x;` etc. keep to statement position
        # early = not the last statement of the function body: something other than closing
        # braces of blocks follows before the end of the enclosing fn.  Cheap test: the statement
        # sits in a nested block (indentation deeper than 4 + fn indentation is not known) — we
        # let the compiler decide (a missing value does not compile and is discarded).
        add(m.start(), m.end() - m.start(), "", "early")
    # range
    for m in re.finditer(r"\.\.=", src):
        if code(m.start(), m.end()):
            add(m.start(), 3, "..", "range")
    for m in re.finditer(r"(?<=[A-Za-z0-9_)\]])\.\.(?=[A-Za-z0-9_(*&])", src):
        if code(m.start(), m.end()):
            add(m.start(), 2, "..=", "range")
    out.sort(key=lambda s: (s[0], s[3], s[2]))
    return out


def enumerate_all(repo):
    """list of dict(id, file, line, col, operator, before, after, offset, length)"""
    res = []
    for path, _ in FILES:
        fp = os.path.join(repo, path)
        try:
            src = open(fp, encoding="utf-8").read()
        except OSError:
            continue
        vspans = verif_only_spans(src)
        for off, ln, rep, op in sites_of(src):
            line = src.count("\n", 0, off) + 1
            ls = src.rfind("\n", 0, off) + 1
            le = src.find("\n", off)
            le = len(src) if le < 0 else le
            text = src[ls:le]
            new = (src[:off] + rep + src[off + ln:])
            nle = new.find("\n", off + len(rep)) if "\n" not in src[off:off + ln] else new.find("\n", off + len(rep))
            after = new[ls:(len(new) if nle < 0 else nle)]
            res.append({
                "file": path, "line": line, "col": off - ls + 1, "operator": op,
                "before": text.strip() if "\n" not in src[off:off + ln] else src[ls:src.find("\n", off + ln) if src.find("\n", off + ln) >= 0 else len(src)].strip(),
                "after": after.strip() or "(statement removed)",
                "token": " ".join(src[off:off + ln].split()), "replacement": rep,
                "offset": off, "length": ln,
                "verif_only": any(a <= off < b for a, b in vspans),
            })
    for k, r in enumerate(res):
        r["id"] = f"{k:04d}"
    return res


def sample(all_sites, seed, count):
    """stratified: a file drawn by weight, then an operator present in the file drawn uniformly, then
    a site of that operator drawn uniformly; no repetition of a site, and at most one variant per
    (file, offset, operator)"""
    rng = random.Random(seed)
    weights = dict(FILES)
    by_file = {}
    for s in all_sites:
        by_file.setdefault(s["file"], {}).setdefault(s["operator"], []).append(s)
    chosen, seen = [], set()
    files = [f for f, _ in FILES if f in by_file]
    guard = 0
    while len(chosen) < count and files and guard < 100000:
        guard += 1
        f = rng.choices(files, weights=[weights[x] for x in files])[0]
        ops = sorted(by_file[f])
        if not ops:
            files.remove(f)
            continue
        op = rng.choice(ops)
        lst = by_file[f][op]
        s = lst.pop(rng.randrange(len(lst)))
        if not lst:
            del by_file[f][op]
        key = (s["file"], s["offset"], s["operator"])
        if key in seen or s.get("verif_only"):
            continue
        seen.add(key)
        chosen.append(s)
    return chosen


def dirty_files(repo):
    p = subprocess.run(["git", "status", "--porcelain", "--"] + [f for f, _ in FILES], cwd=repo, capture_output=True, text=True)
    return [l for l in p.stdout.split("\n") if l.strip()]


def main():
    ap = argparse.ArgumentParser()
    sub = ap.add_subparsers(dest="cmd", required=True)
    a = sub.add_parser("list")
    a.add_argument("--seed", type=int, default=1)
    a.add_argument("--count", type=int, default=50)
    a.add_argument("--repo", default=os.environ.get("VERIF_REPO", "/repo"))
    a.add_argument("--all", action="store_true")
    a.add_argument("--json", action="store_true")
    a = sub.add_parser("show")
    a.add_argument("id")
    a.add_argument("--repo", default=os.environ.get("VERIF_REPO", "/repo"))
    a = sub.add_parser("apply")
    a.add_argument("id")
    a.add_argument("repo")
    a = sub.add_parser("revert")
    a.add_argument("repo")
    a = sub.add_parser("stats")
    a.add_argument("--repo", default=os.environ.get("VERIF_REPO", "/repo"))
    args = ap.parse_args()

    if args.cmd == "revert":
        sys.exit(subprocess.run(["git", "checkout", "--", "."], cwd=args.repo).returncode)
    if args.cmd == "apply" and dirty_files(args.repo):
        print("the listed files differ from HEAD: revert first (ids are ranks in the enumeration of the clean tree)", file=sys.stderr)
        sys.exit(2)
    sites = enumerate_all(args.repo)
    if args.cmd == "stats":
        tab = {}
        for s in sites:
            tab.setdefault(s["file"], {}).setdefault(s["operator"], 0)
            tab[s["file"]][s["operator"]] += 1
        for f, _ in FILES:
            if f in tab:
                print(f"{sum(tab[f].values()):5d} {f}  " + " ".join(f"{k}={v}" for k, v in sorted(tab[f].items())))
        print(f"{len(sites):5d} total")
        return
    if args.cmd == "list":
        lst = sites if args.all else sample(sites, args.seed, args.count)
        for s in lst:
            s = dict(s, anchors=anchors_of(s["file"]))
            if args.json:
                print(json.dumps(s, ensure_ascii=False))
            else:
                print(f"{s['id']} {s['file']}:{s['line']}:{s['col']} {s['operator']}  `{s['token']}` -> `{s['replacement']}`  | {s['after'][:110]}")
        return
    byid = {s["id"]: s for s in sites}
    if args.id not in byid:
        print(f"no such mutant {args.id} (0000..{len(sites) - 1:04d})", file=sys.stderr)
        sys.exit(2)
    s = byid[args.id]
    if args.cmd == "show":
        print(json.dumps(dict(s, anchors=anchors_of(s["file"])), indent=1, ensure_ascii=False))
        return
    fp = os.path.join(args.repo, s["file"])
    src = open(fp, encoding="utf-8").read()
    new = src[:s["offset"]] + s["replacement"] + src[s["offset"] + s["length"]:]
    open(fp, "w", encoding="utf-8").write(new)
    print(f"applied {s['id']} {s['file']}:{s['line']} {s['operator']}: {s['before']}  ->  {s['after']}")


if __name__ == "__main__":
    main()
