#!/bin/bash
# usage: proc.sh <verif-copy> <worktree> <ID>...
V=$1; W=$2; shift; shift
/verif/tools/confirm_seeded.sh $W 2>&1 | grep -v condarc
cd $V; mkdir -p .cache
for id in "$@"; do
  s=$(date +%s)
  VERIF_REPO=$W ./check.py $id > .cache/seed_$(basename $W)_$id.log 2>&1; rc=$?
  echo "== $id rc=$rc $(( $(date +%s)-s ))s"; grep -v condarc .cache/seed_$(basename $W)_$id.log | grep -E "VIOLATION|quick:" | cut -c1-400
done
