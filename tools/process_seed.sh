#!/bin/bash
# usage: process_seed.sh <worktree> <ID> [<ID>…] — confirm the seeded change, then run the named checks against the changed checkout
W=$1; shift
/verif/tools/confirm_seeded.sh $W 2>&1 | grep -v condarc
cd /verif
for id in "$@"; do
  VERIF_REPO=$W ./check.py $id > .cache/seed_$(basename $W)_$id.log 2>&1; rc=$?
  echo "== $id rc=$rc"; grep -v condarc .cache/seed_$(basename $W)_$id.log | grep -E "VIOLATION|quick:" | cut -c1-400
done
