#!/usr/bin/env python3
"""Runs /repo's test suite offline (guard off) and compares with /root/.vp/BASELINE.json:
expects exactly the 113 stable tests to pass; the 256 fuzz-corpus tests always fail (corpus absent)."""
import json, re, subprocess, sys
base = json.load(open("/root/.vp/BASELINE.json"))
p = subprocess.run(["cargo", "test", "--workspace", "--no-fail-fast", "--offline"], cwd="/repo",
                   stdout=subprocess.PIPE, stderr=subprocess.STDOUT, text=True)
ok = re.findall(r"^test (\S+) .*\.\.\. ok$", p.stdout, re.M)
# doctests lines look like "test path - item (line N) ... ok": count them too
ok_all = re.findall(r"^test (.+?) \.\.\. ok$", p.stdout, re.M)
failed = re.findall(r"^test (.+?) \.\.\. FAILED$", p.stdout, re.M)
unexpected = [f for f in failed if not re.fullmatch(r"tests::_[0-9a-f]{2}", f)]
print(f"passed={len(ok_all)} failed={len(failed)} unexpected_failures={unexpected}")
want = {n.split("::", 1)[1] for n in base["stable_pass"] if not n.startswith("opening-hours-py::tests::doctests")}
have = set(ok)
missing = sorted(w for w in want if w not in have and not any(h.endswith(w) for h in have))
print("baseline tests not passing:", missing)
sys.exit(0 if not unexpected and not missing else 1)
