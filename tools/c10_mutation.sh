#!/bin/bash
# Mutation sanity test for suite c10 (ops hol.*): every mutation below must produce `fail` verdicts,
# the unmutated stream must produce none.  Nothing under /repo is touched: the data files are COPIED
# and the copies edited; the other mutations corrupt `=> output` lines of the implementation's dump.
#   usage: c10_mutation.sh [harness binary] [driver binary]
set -u
HERE="$(cd "$(dirname "$0")" && pwd)"
ROOT="$(dirname "$HERE")"
H="${1:-$ROOT/target/release/ohharness}"
D="${2:-$ROOT/lean/.lake/build/bin/ohdriver}"
T="$(mktemp -d)"
trap 'rm -rf "$T"' EXIT
rc=0
expect() { # <label> <expected pattern> <file with verdicts>
  if grep -q "$2" "$3"; then echo "detected   $1: $(grep -c '^fail' "$3") fail line(s), e.g. $(grep -m1 "$2" "$3" | cut -c1-150)"
  else echo "NOT DETECTED $1"; rc=1; fi
}

"$H" run c10 quick 1 > "$T/base.txt"
"$D" < "$T/base.txt" > "$T/base.out"
if grep -qv '^ok' "$T/base.out"; then echo "baseline is not all ok"; rc=1; else echo "baseline   $(wc -l < "$T/base.out") lines, all ok"; fi

# 1. edited COPIES of the data files: the driver's spec/model side reads them, the implementation embeds the originals
cp /repo/opening-hours/data/holidays_public.txt "$T/pub.txt"
cp /repo/opening-hours/data/holidays_school.txt "$T/school.txt"
sed -i '0,/^FR 2024-07-14$/{/^FR 2024-07-14$/d}' "$T/pub.txt"        # a date removed
sed -i 's/^DE 2030-10-03$/DE 2030-10-04/' "$T/pub.txt"               # a date moved by one day
echo "IT 2031-03-03" >> "$T/pub.txt"                                  # a date added (out of order, at the end)
echo "XK 2031-03-03" >> "$T/pub.txt"                                  # a region that is not a country: its calendar is read and dropped,
                                                                      # ZA and ZW (after it in the stream) must stay `ok`
sed -i 's/^IE 2024-03-29$/IE 2024-03-30/' "$T/school.txt"
{ echo "hol.load $T/pub.txt $T/school.txt" | "$H" exec; grep -v '^hol.load' "$T/base.txt"; } | "$D" > "$T/m1.out"
expect "data copy: FR date removed / DE date moved / IT date added / IE school date moved" "^fail iter-eq-listed" "$T/m1.out"
expect "data copy, seen through the evaluator (PH/SH)" "^fail selector-sees-listed" "$T/m1.out"
[ "$(grep -c '^fail iter-eq-listed' "$T/m1.out")" = 4 ] || { echo "expected exactly 4 calendars to differ"; rc=1; }

# 2. a stale dump: the driver reads other bytes than the harness
{ echo "hol.load /repo/opening-hours/data/holidays_public.txt /repo/opening-hours/data/holidays_school.txt" | "$H" exec | sed "s#/repo/opening-hours/data/holidays_public.txt#$T/pub.txt#"; } | "$D" > "$T/m2.out"
expect "different bytes read by the two sides" "^fail load-same-bytes" "$T/m2.out"

# 3. corrupted dump lines
grep '^hol.cal FR pub' "$T/base.txt" | python3 -c "
import sys
t = sys.stdin.read().rstrip('\n').split(' ')
i = t.index('|')
bm = t[i + 1 + 34]                       # year 2024
t[i + 1 + 34] = bm[:10] + format(int(bm[10], 16) ^ 1, 'x') + bm[11:]
print(' '.join(t))" | "$D" > "$T/m3.out"
expect "one bit of the contains bitmap flipped" "^fail contains-iff-listed year=2024" "$T/m3.out"
grep '^hol.cal FR school' "$T/base.txt" | sed 's/ 0$/ 8/' | "$D" > "$T/m4.out"
expect "a day contained in an empty calendar" "^fail contains-iff-listed year=2085" "$T/m4.out"
grep '^hol.cal FR pub' "$T/base.txt" | python3 -c "
import sys
t = sys.stdin.read().rstrip('\n').split(' ')
a = t.index('=>')
t[a + 2] = str(int(t[a + 2]) - 1); t[a + 3] = str(int(t[a + 3]) - 1); del t[a + 4 + 100]
print(' '.join(t))" | "$D" > "$T/m5.out"
expect "a listed date missing from iter()" "^fail iter-eq-listed" "$T/m5.out"
grep '^hol.country FR' "$T/base.txt" | sed 's/ok:FR/ok:GF/' | "$D" > "$T/m6.out"
expect "from_str(iso_code(FR)) is another country" "^fail fromStr-isoCode" "$T/m6.out"
grep '^hol.fromstr FA ' "$T/base.txt" | sed 's/ ok:FR / err:Unknown%20ISO%20code%20`FR` /' | "$D" > "$T/m7.out"
expect "a code rejected" "^fail fromStr-only-isoCodes input=FR" "$T/m7.out"
grep '^hol.fromstr FA ' "$T/base.txt" | sed 's/ err:Unknown%20ISO%20code%20`FA` / ok:FR /' | "$D" > "$T/m8.out"
expect "a non-code accepted" "^fail fromStr-only-isoCodes input=FA" "$T/m8.out"
grep '^hol.all' "$T/base.txt" | sed 's/ ZW$//;s/=> 115/=> 114/' | "$D" > "$T/m9.out"
expect "a variant missing from ALL" "^fail all-complete-nodup" "$T/m9.out"
grep '^hol.ph FR PH' "$T/base.txt" | sed 's/0-1440-o\*1 0-1440-c\*2 0-1440-o\*1/0-1440-o*1 0-1440-c*3/' | "$D" > "$T/m10.out"
expect "PH closed on a listed day" "^fail selector-sees-listed" "$T/m10.out"
grep '^hol.pdate' "$T/base.txt" | head -1 | sed 's/ok:40229/err/' | "$D" > "$T/m11.out"
expect "date parser differs from the model (disagree)" "^disagree input=0004-02-29" "$T/m11.out"
exit $rc
