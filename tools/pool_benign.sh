#!/bin/bash
# usage: benign.sh <pool> <n> <patchfile> <IDs...>
V=$1; n=$2; P=$3; shift; shift; shift
W=/tmp/benign-$n
git -C /repo worktree add --detach $W HEAD >/dev/null 2>&1
if ! git -C $W apply $P 2>/tmp/benign-$n.err; then echo "patch $n does not apply: $(head -1 /tmp/benign-$n.err)"; git -C /repo worktree remove --force $W; exit 0; fi
cd $V
for id in "$@"; do
  VERIF_REPO=$W ./check.py $id > .cache/benign_${n}_$id.log 2>&1; rc=$?
  echo "patch $n $id rc=$rc $(grep -E 'VIOLATION' .cache/benign_${n}_$id.log | cut -c1-160) $(grep -E 'quick:' .cache/benign_${n}_$id.log | grep -o '[0-9]*/[0-9]* obligations, [0-9]* failures, [0-9]* disagreements')"
done
git -C /repo worktree remove --force $W; rm -rf $V/.cache/shadow
