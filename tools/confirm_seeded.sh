#!/bin/bash
# usage: confirm_seeded.sh <worktree>   — re-runs the agent's demonstration with and without the change and the suite with it
set -u
W=$1; cd $W || exit 2
cmd=$(python3 -c "import json;print(json.load(open('SEEDED/meta.json'))['demo_cmd'])")
echo "== demo with change (must FAIL)"; (eval "$cmd") > SEEDED/confirm_with.log 2>&1; echo "rc=$?"
git apply -R SEEDED/patch.diff || { echo "cannot reverse patch"; exit 2; }
echo "== demo without change (must PASS)"; (eval "$cmd") > SEEDED/confirm_without.log 2>&1; echo "rc=$?"
git apply SEEDED/patch.diff
echo "== suite with change"
cargo test --workspace --no-fail-fast --offline > SEEDED/confirm_suite.log 2>&1
python3 - <<'PY'
import re
t=open('SEEDED/confirm_suite.log').read()
failed=re.findall(r"^test (.+?) \.\.\. FAILED$", t, re.M)
unexpected=[f for f in failed if not re.fullmatch(r"tests::_[0-9a-f]{2}", f)]
ok=len(re.findall(r"^test (.+?) \.\.\. ok$", t, re.M))
print(f"suite: ok={ok} failed={len(failed)} unexpected={unexpected}")
PY
