#!/usr/bin/env python3
"""usage: store_seed.py <worktree> <name> <caught_by comma list> <note> — keeps a confirmed seeded change under /verif/seeded/<name>/
and appends its row to DESIGN.md §8.6 (before the 'Lessons applied' paragraph)"""
import json, os, shutil, sys
w, name, caught, note = sys.argv[1:5]
d = os.path.join("/verif/seeded", name); os.makedirs(d, exist_ok=True)
for f in os.listdir(os.path.join(w, "SEEDED")):
    if f.startswith("confirm_"): continue
    shutil.copy(os.path.join(w, "SEEDED", f), d)
m = json.load(open(os.path.join(d, "meta.json")))
m["verif_result"] = {"caught_by": [c for c in caught.split(",") if c], "note": note}
m["confirmed"] = "demo re-run by tools/confirm_seeded.sh in the scratch worktree: fails with the change, passes without; suite passes with the change (fuzz corpus tests excepted; the only other failing tests are the demonstration's own when it is left installed)"
m["round"] = int(os.environ.get("ROUND", "3"))
json.dump(m, open(os.path.join(d, "meta.json"), "w"), indent=1, ensure_ascii=False)
needs = m.get("needs", ""); needs = needs if isinstance(needs, str) else json.dumps(needs)
row = f"| `{name}` (round {m['round']}) | {m['property']} | {needs[:180].replace('|', '/').replace(chr(10), ' ')}… | {', '.join(m['verif_result']['caught_by'])} | {note} |\n"
p = "/verif/DESIGN.md"; t = open(p).read()
mark = "Lessons applied to the generators"
i = t.index(mark)
t = t[:i] + row + t[i:]
open(p, "w").write(t)
print("stored", name)
