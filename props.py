"""Per-property configuration of check.py (suites, evidence texts)."""

TB_COMMON = [
    "Lean 4.33 kernel (thorough tier: re-checked by leanchecker); axioms allowed: propext, Classical.choice, Quot.sound — audited by #print axioms on every property theorem",
    "the theorems are about the hand-written Lean model OH/Model/*; the tie to /repo is the correspondence check (differential testing, not a theorem): /verif/harness calls the real code in-process, the compiled Lean driver evaluates the model and the property predicate on the implementation's output",
    "Lean compiler for the driver executable (a miscompilation shows as a correspondence failure, not as a false proof)",
]

PROPS = {
    "C19": {
        "suites": ["c19"],
        "trivial_tags": [],
        "rule": "exhaustive enumeration: all (u8,u8) constructor arguments, all u16 minute counts, every valid value x {minutes, display, clock conversion, all i8 hour offsets}, every valid value x 300 (quick) / 600 (thorough) minute offsets incl. all boundaries (thorough: also all i16 offsets in-harness against the proved closed form), order on a boundary-biased set of pairs; a case is one distinct operation line; every case is non-trivial (each exercises a clause of the property)",
        "exhaustive": {"quick": True, "thorough": True},
        "trusted_base": TB_COMMON + ["modelled, not verified: Rust's integer conversions (u8/u16/i16 try_into, checked_add) are written out as range tests in OH/Model/ExtendedTime.lean; chrono::NaiveTime::from_hms_opt is modelled as `hour < 24 ∧ minute < 60`"],
        "assumptions": ["std::fmt `{:02}` formatting is modelled by `pad2`"],
        "explanation": "C19: all theorems of OH/Props/C19.lean (constructor range, mutually inverse minute conversions, order = minute order, add_minutes/add_hours = integer addition with none exactly outside 00:00..48:00, HH:MM display, clock conversion below 24:00) are proved for all inputs; the model is tied to the Rust type by exhaustive enumeration of the finite input domains.",
    },
}
