"""Per-property configuration of check.py (suites, evidence texts)."""

TB_COMMON = [
    "Lean 4.33 kernel (thorough tier: re-checked by leanchecker); axioms allowed: propext, Classical.choice, Quot.sound — audited by #print axioms on every property theorem",
    "the theorems are about the hand-written Lean model OH/Model/*; the tie to /repo is the correspondence check (differential testing, not a theorem): /verif/harness calls the real code in-process, the compiled Lean driver evaluates the model and the property predicate on the implementation's output",
    "Lean compiler for the driver executable (a miscompilation shows as a correspondence failure, not as a false proof)",
]

PROPS = {
    "C19": {
        "suites": ["c19"],
        "trivial_tags": [],
        "rule": "exhaustive enumeration: all (u8,u8) constructor arguments, all u16 minute counts, every valid value x {minutes, display, clock conversion, all i8 hour offsets}, every valid value x 300 (quick) / 600 (thorough) minute offsets incl. all boundaries (thorough: also all i16 offsets in-harness against the proved closed form), order on a boundary-biased set of pairs; a case is one distinct operation line; every case is non-trivial (each exercises a clause of the property)",
        "exhaustive": {"quick": True, "thorough": True},
        "trusted_base": TB_COMMON + ["modelled, not verified: Rust's integer conversions (u8/u16/i16 try_into, checked_add) are written out as range tests in OH/Model/ExtendedTime.lean; chrono::NaiveTime::from_hms_opt is modelled as `hour < 24 ∧ minute < 60`"],
        "assumptions": ["std::fmt `{:02}` formatting is modelled by `pad2`"],
        "explanation": "C19: all theorems of OH/Props/C19.lean (constructor range, mutually inverse minute conversions, order = minute order, add_minutes/add_hours = integer addition with none exactly outside 00:00..48:00, HH:MM display, clock conversion below 24:00) are proved for all inputs; the model is tied to the Rust type by exhaustive enumeration of the finite input domains.",
    },
    "C20": {
        "suites": ["c20"],
        "trivial_tags": ["empty", "s-empty"],
        "rule": "exhaustive: all pairs of sorted-unique vectors over 4 letters, all vectors of length <= 5 over 4 letters (from/contains/find_first_following with every probe 0..5), union on ALL pairs of arbitrary vectors (len <= 6 over 2 letters, <= 4 over 3 and 4 letters) passing through From<Vec>; plus 5k random groups (length <= 40, alphabets 2..50, touching/interleaved/nested operands, chains) and strings incl. multi-byte UTF-8 boundaries on both String and Arc<str>; thorough: vectors <= 6 over 5 letters, 200k random, all pairs <= 6 over 4 and 5 letters in-harness; a case is one distinct operation line, trivial = an empty operand",
        "exhaustive": {"quick": True, "thorough": True},
        "trusted_base": TB_COMMON + ["modelled, not verified: Rust's sort_unstable+dedup (insertion sort + adjacent dedup; equal for lawful Ord) and slice::binary_search (textbook midpoint search; `binarySearch_is_the_contract` proves the documented contract has a unique solution on sorted input, so any conforming implementation returns the same result)"],
        "assumptions": ["element types have a lawful total order (Std.TransOrd, Std.LawfulEqOrd); instances exist for Nat, Char, String", "Rust's byte order on UTF-8 strings equals Lean's code-point order (confirmed by the correspondence on boundary code points)"],
        "explanation": "C20: OH/Props/C20.lean proves, for every lawful ordered element type, that From<Vec> yields exactly the distinct elements strictly increasing, union of sorted operands is sorted and is exactly the set union (and, via uniqueness of sorted lists, commutative/associative/idempotent as list equalities), contains = membership, find_first_following = least element not below the argument, and that every value constructible through the API is sorted (Reachable).",
    },
    "C14": {
        "suites": ["c14"],
        "trivial_tags": ["empty"],
        "rule": "histories in postfix notation over a stack of schedules (new / from_ranges / addition), raw ranges read through the verif_ranges hook and the iteration of every intermediate schedule; exhaustive: all histories of <= 3 operations over single- and two-range inputs with endpoints on a 5-6 point grid and the three kinds; plus 5k random long histories (up to 12 schedules of up to 6 ranges, touching/nested/empty/inverted ranges, comments with duplicates, a stream reaching beyond 24:00) and the three range helpers; thorough: 4 operations / 8-point grid sample + 200k random; distinct = distinct operation line; trivial = final schedule empty",
        "exhaustive": {"quick": False, "thorough": False},
        "trusted_base": TB_COMMON + ["modelled, not verified: sort_unstable_by_key (stable insertion sort; with the repaired max-merge the result does not depend on the order of equal starts)", "hook: Schedule::verif_ranges (cfg opening_hours_verif) exposes the raw vector"],
        "assumptions": ["comments well-formedness theorems are parametrised by the union laws proved in C20"],
        "explanation": "C14: OH/Props/C14.lean proves for arbitrary inputs: from_ranges is WF (disjoint, increasing, non-empty) and covers exactly the union of its inputs; insert/addition keep WF and give every minute the kind of the most recently added covering schedule (additions_state, folded over any finite sequence); every API-reachable schedule is WF/within/coalesced; iteration never hits the pre_yield assert, tiles 00:00-24:00, alternates kinds and shows closed in holes.",
    },
    "C15": {
        "suites": ["c15"],
        "trivial_tags": ["hist-empty"],
        "rule": "one line = one history on the real CompactCalendar (ins/has/after/year_for/count/iter/serialize/round-trip/deserialize steps), compared step by step with a plain sorted-set oracle written in Lean and with the model; dates in any order, duplicates, windows anywhere in -262000..262000 (span capped at 3000 years), day 31, Feb 29, December, queries before/inside/after the window; plus equality of permuted histories, concatenated streams, truncated and corrupted streams, CompactMonth/CompactYear methods on all 31 days x boundary masks; quick 5k histories, thorough 200k; distinct = distinct operation line; trivial = empty history",
        "exhaustive": {"quick": False, "thorough": False},
        "trusted_base": TB_COMMON + ["modelled, not verified: chrono's from_ymd_opt validity (Gregorian leap rule), VecDeque push_front/push_back as list cons/append, native-endian = little-endian serialization on this target, u32 trailing_zeros/count_ones as least-set-bit search/popcount on Nat masks"],
        "assumptions": ["inserted dates are dates chrono can build (years -262143..262142)"],
        "explanation": "C15: OH/Props/C15.lean proves, for every insertion history of valid dates: no panic, the window invariant, abs = inserted dates, insert reports newness, contains/count/ordered iteration/first_after agree with the sorted set (first_after for any query before, inside or after the window), structural equality = set equality on reachable calendars, deserialize(serialize c ++ rest) = (c, rest) and the stream version.",
    },
    "C01": {
        "suites": ["c01", "cal"],
        "trivial_tags": ["allclosed", "parse-error", "panic", "undefined-range"],
        "rule": "c01: generated expressions (grammar-directed, every selector kind and syntactic variant, boundary-biased) and the suite's 200 sample expressions x days biased to leap days, month/year ends, ISO-week-53 years, Easter, 1900/9999 bounds, consecutive days (spans passing midnight), contexts with random/embedded-country holiday calendars and coordinates; the predicate c01Holds (pointwise equality with OH.Spec.dayState on all 1440 minutes) is evaluated on the implementation's schedule_at output; cal: the chrono tie of the calendar model (chr.* ops); distinct = distinct operation line; trivial = schedule closed all day, parse error, or a dated range the documented semantics do not define",
        "exhaustive": {"quick": False, "thorough": False},
        "trusted_base": TB_COMMON + ["the specification OH/Spec/Rules.lean is hand-written from the property text and the OSM semantics; where the text is silent (wrapping year range with step, wrapping week range with step, event offsets leaving 00:00-48:00) it adopts the code's reading and says so", "modelled, not verified: chrono (OH/Model/Calendar.lean, tied by the chr.* suite: every day 1900..9999 in the thorough tier), the sunrise crate (event times are a context parameter supplied by the harness)"],
        "assumptions": ["dated ranges from a date without a year to a date with one have no documented meaning and are outside the scope (exprDefined)"],
        "explanation": "C01: the documented semantics are the executable specification OH.Spec.dayState; the run-time oracle evaluates it on the implementation's output for every minute; the model (tied by correspondence: 0 disagreements) follows the repaired code. Proved so far: outside-range clauses, independence from the bound, holidays only from the context, closed forms of selector predicates; the refinement theorem model ⊑ spec is under construction and NOT claimed.",
    },
}
