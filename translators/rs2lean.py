#!/usr/bin/env python3
"""
Small pure arithmetic functions of /repo -> lean/OH/Generated/Arith.lean  (tie 1, DESIGN §2.2 / §8.9)

The functions listed in TARGETS (plain integer arithmetic, comparisons, Option plumbing) are parsed
from the Rust sources on every run and written out as Lean definitions over the support library
OH/Model/RustInt.lean: one `def` per Rust function, same evaluation order, every `+ - *` a checked
operation whose overflow is an explicit outcome, `/ %` truncating, `as` wrapping, `try_into` a range
test, `expect`/`assert!` an explicit panic outcome.  OH/Props/Arith<ID>.lean proves that the
generated definitions never reach such an outcome (or exactly when the hand-written model says so)
and that they equal the hand-written models, so the property theorems are re-checked against what
the code says NOW.

The parser is a strict recursive-descent parser for exactly the Rust subset these functions use
(see `class Parser`); anything else -- an unknown token, statement, method, type, a type the
inference cannot determine -- is an error naming file:line, exit status 1, and nothing is written.
Comments, doc comments and attributes are skipped.

usage:  rs2lean.py [--repo DIR] [--override REL=FILE]... [--out FILE]
        (DIR defaults to $VERIF_REPO or /repo; --override reads FILE in place of DIR/REL, for
        experiments on an edited copy; the output is rewritten only when its content changes)
"""
import os
import re
import sys

VERIF = os.path.dirname(os.path.dirname(os.path.abspath(__file__)))
REPO = os.environ.get("VERIF_REPO", "/repo")
OUT = os.path.join(VERIF, "lean/OH/Generated/Arith.lean")

F_EXT = "opening-hours-syntax/src/extended_time.rs"
F_DATES = "opening-hours/src/utils/dates.rs"
F_FRAME = "opening-hours-syntax/src/normalize/frame.rs"
F_DAY = "opening-hours-syntax/src/rules/day.rs"
F_CC = "compact-calendar/src/lib.rs"

# what is translated: (file, impl type or None for free functions, trait or None, function names);
# `structs`: (file, name) of the struct declarations the functions use (fields of integer type);
# `externs`: library calls kept as the tuple of their arguments, with the parameter types of the
# library's signature (chrono: `NaiveDate::from_ymd_opt(year: i32, month: u32, day: u32)`).
STRUCTS = [(F_EXT, "ExtendedTime"), (F_DAY, "Year"), (F_DAY, "WeekNum"), (F_CC, "CompactMonth")]
TARGETS = [
    (F_EXT, "ExtendedTime", None, ["new", "mins_from_midnight", "from_mins_from_midnight", "add_minutes", "add_hours"]),
    (F_DATES, None, None, ["easter"]),
    (F_FRAME, "Year", "Framable", ["succ", "pred"]),
    (F_FRAME, "WeekNum", "Framable", ["succ", "pred"]),
    (F_CC, "CompactMonth", None, ["contains", "first", "first_after", "count"]),
]
EXTERNS = {"NaiveDate::from_ymd_opt": (["i32", "u32", "u32"], "Option < NaiveDate >")}
FREE_NS = {F_DATES: "Dates"}

INT_TYPES = {
    "u8": (0, 2**8 - 1), "u16": (0, 2**16 - 1), "u32": (0, 2**32 - 1), "u64": (0, 2**64 - 1), "usize": (0, 2**64 - 1),
    "i8": (-(2**7), 2**7 - 1), "i16": (-(2**15), 2**15 - 1), "i32": (-(2**31), 2**31 - 1), "i64": (-(2**63), 2**63 - 1),
    "isize": (-(2**63), 2**63 - 1),
}
LEAN_KEYWORDS = {
    "at", "from", "end", "open", "in", "fun", "do", "then", "else", "if", "with", "show", "have", "let", "by", "match",
    "def", "theorem", "where", "namespace", "section", "import", "instance", "structure", "class", "Type", "Prop", "Sort",
    "forall", "exists", "true", "false", "some", "none", "ok", "error", "bnd", "deriving", "mutual", "return", "for",
    "local", "private", "protected", "export", "universe", "variable", "example", "axiom", "opaque", "abbrev", "inductive",
    "set_option", "macro", "syntax", "notation", "infix", "prefix", "postfix", "attribute", "using", "this", "suffices",
    "calc", "nomatch", "nofun", "decide", "Int", "Nat", "Bool", "Option", "R",
}


class Fail(Exception):
    pass


def fail(where, msg):
    raise Fail(f"{where}: {msg}")


# ------------------------------------------------------------------------------------------------
# tokens

TOKEN = re.compile(
    r"""
    (?P<ws>\s+) |
    (?P<lcom>//[^\n]*) |
    (?P<bcom>/\*) |
    (?P<str>b?"(?:[^"\\]|\\.)*") |
    (?P<rawstr>r\#*") |
    (?P<life>'[A-Za-z_][A-Za-z0-9_]*(?!')) |
    (?P<chr>b?'(?:[^'\\]|\\.[^']*)') |
    (?P<num>\d[\d_]*(?:\.\d[\d_]*)?(?:[eE][+-]?\d+)?(?:[iu](?:8|16|32|64|128|size)|f32|f64)?) |
    (?P<id>[A-Za-z_][A-Za-z0-9_]*) |
    (?P<op>\.\.=|\.\.\.|<<=|>>=|::|->|=>|==|!=|<=|>=|&&|\|\||<<|>>|\+=|-=|\*=|/=|%=|\|=|&=|\^=|\.\.|[-+*/%=<>!&|^~?.,;:@#$(){}\[\]])
    """,
    re.X,
)


class Tok:
    __slots__ = ("kind", "text", "line")

    def __init__(self, kind, text, line):
        self.kind, self.text, self.line = kind, text, line

    def __repr__(self):
        return f"{self.kind}:{self.text!r}@{self.line}"


def tokenize(src, fname):
    toks, i, line = [], 0, 1
    n = len(src)
    while i < n:
        m = TOKEN.match(src, i)
        if not m:
            fail(f"{fname}:{line}", f"unexpected character {src[i]!r}")
        kind = m.lastgroup
        text = m.group()
        if kind == "bcom":  # nested block comments
            depth, j = 1, m.end()
            while depth and j < n:
                if src.startswith("/*", j):
                    depth += 1
                    j += 2
                elif src.startswith("*/", j):
                    depth -= 1
                    j += 2
                else:
                    j += 1
            if depth:
                fail(f"{fname}:{line}", "unterminated block comment")
            line += src.count("\n", i, j)
            i = j
            continue
        if kind == "rawstr":
            hashes = text.count("#")
            close = '"' + "#" * hashes
            j = src.find(close, m.end())
            if j < 0:
                fail(f"{fname}:{line}", "unterminated raw string")
            j += len(close)
            toks.append(Tok("str", src[i:j], line))
            line += src.count("\n", i, j)
            i = j
            continue
        if kind not in ("ws", "lcom"):
            toks.append(Tok(kind, text, line))
        line += text.count("\n")
        i = m.end()
    toks.append(Tok("eof", "", line))
    return toks


def skip_attrs(toks, i):
    """index after any `#[...]` / `#![...]` starting at i"""
    while toks[i].text == "#":
        j = i + 1
        if toks[j].text == "!":
            j += 1
        if toks[j].text != "[":
            break
        depth = 0
        while True:
            if toks[j].text == "[":
                depth += 1
            elif toks[j].text == "]":
                depth -= 1
                if depth == 0:
                    break
            elif toks[j].kind == "eof":
                return j
            j += 1
        i = j + 1
    return i


def strip_attrs(toks):
    out, i = [], 0
    while i < len(toks):
        j = skip_attrs(toks, i)
        if j != i:
            i = j
            continue
        out.append(toks[i])
        i += 1
    return out


def matching(toks, i):
    """index of the bracket closing the one at i"""
    pairs = {"{": "}", "(": ")", "[": "]"}
    o = toks[i].text
    c = pairs[o]
    depth = 0
    while True:
        t = toks[i]
        if t.kind == "eof":
            return None
        if t.kind == "op" and t.text == o:
            depth += 1
        elif t.kind == "op" and t.text == c:
            depth -= 1
            if depth == 0:
                return i
        i += 1


# ------------------------------------------------------------------------------------------------
# types

class TVar:
    """inference variable; `lit` = comes from an integer literal (defaults to i32 like rustc)"""
    n = 0

    def __init__(self, lit=False, where=""):
        TVar.n += 1
        self.id, self.lit, self.where, self.ref = TVar.n, lit, where, None


def T(kind, *args):
    return (kind,) + args


BOOL = T("bool")


def tint(name):
    return T("int", name)


def prune(t):
    while isinstance(t, TVar) and t.ref is not None:
        t = t.ref
    if isinstance(t, tuple) and t[0] in ("opt", "res"):
        return (t[0], prune(t[1]))
    return t


def show(t):
    t = prune(t)
    if isinstance(t, TVar):
        return "{integer}" if t.lit else "_"
    if t[0] == "int":
        return t[1]
    if t[0] == "bool":
        return "bool"
    if t[0] == "struct":
        return t[1]
    if t[0] == "opt":
        return f"Option<{show(t[1])}>"
    if t[0] == "res":
        return f"Result<{show(t[1])}, _>"
    if t[0] == "externret":
        return EXTERNS[t[1]][1].replace(" ", "") + f" [the arguments of {t[1]}]"
    return str(t)


def unify(a, b, where):
    a, b = prune(a), prune(b)
    if a is b:
        return
    if isinstance(a, TVar):
        if isinstance(b, TVar):
            if b.lit and not a.lit:
                a.lit = True  # still has to be an integer
            b.ref = a
            return
        if a.lit and b[0] != "int":
            fail(where, f"an integer literal cannot have type {show(b)}")
        a.ref = b
        return
    if isinstance(b, TVar):
        return unify(b, a, where)
    if a[0] != b[0]:
        fail(where, f"type mismatch: {show(a)} vs {show(b)}")
    if a[0] in ("opt", "res"):
        return unify(a[1], b[1], where)
    if a != b:
        fail(where, f"type mismatch: {show(a)} vs {show(b)}")


# ------------------------------------------------------------------------------------------------
# syntax tree

class Node:
    def __init__(self, kind, line, **kw):
        self.kind, self.line, self.ty = kind, line, None
        self.__dict__.update(kw)


class Parser:
    """
    fn      := fn NAME ( params ) [-> type] block
    params  := self | &self | name : type , ...
    type    := u8|u16|u32|u64|usize|i8|i16|i32|i64|isize | bool | Self | STRUCT | Option<type>
    block   := { stmt* [expr] }
    stmt    := let NAME [: type] = expr ;
             | let Some(NAME) = expr else { return expr ; } ;
             | assert!((LIT..=LIT).contains(&NAME)) ;
             | return expr ;                                   (last statement of a block only)
    expr    := binary operators  || && == != < <= > >= | ^ & << >> + - * / %  (Rust precedence), `as`,
               unary - ! * (deref of `self` for a newtype with `impl Deref`), postfix
               .field .0 .method(args) ?
    primary := LIT | true | false | NAME | self | ( expr ) | if expr block else block | None | Some(expr)
             | Self { field[: expr], .. } | Self(expr, ..) | STRUCT(expr, ..) | Self::f(args) | f(args)
             | T::from(expr) | EXTERN::path(args)
    methods := try_into() ok() expect("..") unwrap() into() checked_add(e) checked_sub(e) checked_mul(e)
               trailing_zeros() count_ones() and calls of translated methods of the same type
    """

    BIN = [
        ("||",), ("&&",), ("==", "!=", "<", "<=", ">", ">="), ("|",), ("^",), ("&",), ("<<", ">>"), ("+", "-"), ("*", "/", "%"),
    ]

    def __init__(self, toks, fname, structs):
        self.t, self.i, self.f, self.structs = toks, 0, fname, structs

    def where(self, tok=None):
        return f"{self.f}:{(tok or self.t[self.i]).line}"

    def peek(self, k=0):
        return self.t[self.i + k]

    def at(self, text):
        return self.t[self.i].text == text and self.t[self.i].kind in ("op", "id")

    def eat(self, text):
        if not self.at(text):
            fail(self.where(), f"expected `{text}`, found `{self.peek().text}` (outside the translated subset)")
        self.i += 1
        return self.t[self.i - 1]

    def ident(self):
        tk = self.peek()
        if tk.kind != "id":
            fail(self.where(), f"expected an identifier, found `{tk.text}`")
        self.i += 1
        return tk.text

    # -- types
    def type_(self):
        tk = self.peek()
        if tk.text == "&":
            fail(self.where(), "reference types are outside the translated subset")
        for path, (_, rty) in EXTERNS.items():  # the result type of a library call kept as its arguments
            want = rty.split()
            if [x.text for x in self.t[self.i : self.i + len(want)]] == want:
                self.i += len(want)
                return T("externret", path)
        name = self.ident()
        if name in INT_TYPES:
            return tint(name)
        if name == "bool":
            return BOOL
        if name == "Self":
            return T("struct", "Self")
        if name == "Option":
            self.eat("<")
            inner = self.type_()
            self.eat(">")
            return T("opt", inner)
        if name in self.structs:
            return T("struct", name)
        fail(self.where(tk), f"type `{name}` is outside the translated subset")

    # -- function
    def fn(self):
        line = self.eat("fn").line  # visibility / `const` before `fn` are irrelevant and not looked at
        name = self.ident()
        if self.at("<"):
            fail(self.where(), "generic functions are outside the translated subset")
        self.eat("(")
        params, has_self = [], False
        while not self.at(")"):
            if self.at("&") and self.peek(1).text == "self":
                self.i += 2
                has_self = True
            elif self.at("&") and self.peek(1).text == "mut":
                fail(self.where(), "`&mut` parameters are outside the translated subset")
            elif self.at("self"):
                self.i += 1
                has_self = True
            else:
                if self.at("mut"):
                    fail(self.where(), "`mut` parameters are outside the translated subset")
                pn = self.ident()
                self.eat(":")
                params.append((pn, self.type_()))
            if not self.at(")"):
                self.eat(",")
        self.eat(")")
        ret = None
        if self.at("->"):
            self.i += 1
            ret = self.type_()
        if ret is None:
            fail(self.where(), "a function without a return value is outside the translated subset")
        body = self.block()
        return Node("fn", line, name=name, params=params, has_self=has_self, ret=ret, body=body)

    def block(self):
        line = self.eat("{").line
        stmts, tail = [], None
        while not self.at("}"):
            if tail is not None:
                fail(self.where(), "statement after the tail expression / `return`")
            if self.at("let"):
                stmts.append(self.let())
            elif self.at("assert") and self.peek(1).text == "!":
                stmts.append(self.assert_())
            elif self.at("return"):
                ln = self.eat("return").line
                e = self.expr()
                self.eat(";")
                tail = Node("return", ln, e=e)
            else:
                e = self.expr()
                if self.at(";"):
                    fail(self.where(), "expression statements (side effects) are outside the translated subset")
                tail = e
        self.eat("}")
        if tail is None:
            fail(f"{self.f}:{line}", "a block without a value is outside the translated subset")
        return Node("block", line, stmts=stmts, tail=tail)

    def let(self):
        line = self.eat("let").line
        if self.at("Some"):
            self.i += 1
            self.eat("(")
            name = self.ident()
            self.eat(")")
            self.eat("=")
            e = self.expr()
            self.eat("else")
            self.eat("{")
            self.eat("return")
            r = self.expr()
            self.eat(";")
            self.eat("}")
            self.eat(";")
            return Node("letsome", line, name=name, e=e, orelse=r)
        if self.at("mut"):
            fail(self.where(), "`let mut` is outside the translated subset")
        name = self.ident()
        ann = None
        if self.at(":"):
            self.i += 1
            ann = self.type_()
        self.eat("=")
        e = self.expr()
        self.eat(";")
        return Node("let", line, name=name, ann=ann, e=e)

    def assert_(self):
        """exactly `assert!((LO..=HI).contains(&NAME));`"""
        line = self.eat("assert").line
        self.eat("!")
        start = self.i
        self.eat("(")
        self.eat("(")
        lo = self.int_lit()
        self.eat("..=")
        hi = self.int_lit()
        self.eat(")")
        self.eat(".")
        self.eat("contains")
        self.eat("(")
        self.eat("&")
        name = self.ident()
        self.eat(")")
        self.eat(")")
        text = "".join(tk.text for tk in self.t[start + 1 : self.i - 1])
        self.eat(";")
        return Node("assert", line, lo=lo, hi=hi, name=name, text=text)

    def int_lit(self):
        tk = self.peek()
        if tk.kind != "num":
            fail(self.where(), f"expected an integer literal, found `{tk.text}`")
        self.i += 1
        m = re.fullmatch(r"(\d[\d_]*)((?:[iu](?:8|16|32|64|size))?)", tk.text)
        if not m:
            fail(self.where(tk), f"literal `{tk.text}` is outside the translated subset")
        return Node("lit", tk.line, value=int(m.group(1).replace("_", "")), suffix=m.group(2) or None)

    # -- expressions
    def expr(self, level=0, nostruct=False):
        if level == len(self.BIN):
            return self.cast(nostruct)
        lhs = self.expr(level + 1, nostruct)
        while self.peek().kind == "op" and self.peek().text in self.BIN[level]:
            op = self.peek()
            if level == 2 and getattr(lhs, "cmp_chain", False):
                fail(self.where(), "chained comparison")
            self.i += 1
            rhs = self.expr(level + 1, nostruct)
            lhs = Node("bin", op.line, op=op.text, l=lhs, r=rhs)
            if level == 2:
                lhs.cmp_chain = True
        return lhs

    def cast(self, nostruct):
        e = self.unary(nostruct)
        while self.at("as"):
            ln = self.eat("as").line
            ty = self.type_()
            if ty[0] != "int":
                fail(f"{self.f}:{ln}", "`as` towards a non-integer type")
            e = Node("cast", ln, e=e, to=ty)
        return e

    def unary(self, nostruct):
        tk = self.peek()
        if tk.kind == "op" and tk.text in ("-", "!", "*"):
            self.i += 1
            e = self.unary(nostruct)
            return Node({"-": "neg", "!": "not", "*": "deref"}[tk.text], tk.line, e=e)
        if tk.kind == "op" and tk.text == "&":
            fail(self.where(), "references are outside the translated subset")
        return self.postfix(nostruct)

    def args(self):
        self.eat("(")
        out = []
        while not self.at(")"):
            out.append(self.expr())
            if not self.at(")"):
                self.eat(",")
        self.eat(")")
        return out

    def postfix(self, nostruct):
        e = self.primary(nostruct)
        while True:
            if self.at("?"):
                ln = self.eat("?").line
                e = Node("try", ln, e=e)
            elif self.at("."):
                ln = self.eat(".").line
                tk = self.peek()
                if tk.kind == "num":
                    if not re.fullmatch(r"\d+", tk.text):
                        fail(self.where(), f"field `{tk.text}`")
                    self.i += 1
                    e = Node("field", ln, e=e, name=tk.text)
                else:
                    name = self.ident()
                    if self.at("::"):
                        fail(self.where(), "turbofish is outside the translated subset")
                    if self.at("("):
                        a = self.args()
                        e = Node("method", ln, e=e, name=name, args=a)
                    else:
                        e = Node("field", ln, e=e, name=name)
            else:
                return e

    def primary(self, nostruct):
        tk = self.peek()
        if tk.kind == "num":
            return self.int_lit()
        if tk.kind == "str":
            self.i += 1
            if not re.fullmatch(r'"[^"\\]*"', tk.text):
                fail(self.where(tk), "string literal with escapes")
            return Node("str", tk.line, value=tk.text[1:-1])
        if tk.kind == "op" and tk.text == "(":
            self.i += 1
            e = self.expr()
            if self.at(","):
                fail(self.where(), "tuples are outside the translated subset")
            self.eat(")")
            return Node("paren", tk.line, e=e)
        if tk.kind != "id":
            fail(self.where(), f"`{tk.text}` is outside the translated subset")
        if tk.text == "if":
            self.i += 1
            c = self.expr(nostruct=True)
            a = self.block()
            if not self.at("else"):
                fail(self.where(), "`if` without `else` is outside the translated subset")
            self.i += 1
            if self.at("if"):
                b_line = self.peek().line
                b = Node("block", b_line, stmts=[], tail=self.primary(nostruct))
            else:
                b = self.block()
            return Node("if", tk.line, c=c, a=a, b=b)
        if tk.text in ("match", "loop", "while", "for", "unsafe", "move", "async", "break", "continue", "let", "return"):
            fail(self.where(), f"`{tk.text}` is outside the translated subset")
        # path
        path = [self.ident()]
        while self.at("::"):
            self.i += 1
            if self.at("<"):
                fail(self.where(), "turbofish is outside the translated subset")
            path.append(self.ident())
        if self.at("!"):
            fail(self.where(tk), f"macro `{path[-1]}!` is outside the translated subset")
        if len(path) == 1:
            name = path[0]
            if name in ("true", "false"):
                return Node("bool", tk.line, value=(name == "true"))
            if name == "None":
                return Node("none", tk.line)
            if name == "Some":
                a = self.args()
                if len(a) != 1:
                    fail(self.where(tk), "Some takes one argument")
                return Node("some", tk.line, e=a[0])
            if name == "Self" or name in self.structs:
                if self.at("{") and not nostruct:
                    self.i += 1
                    fields = []
                    while not self.at("}"):
                        ftk = self.peek()
                        fn = self.ident()
                        if self.at(":"):
                            self.i += 1
                            fe = self.expr()
                        else:
                            fe = Node("var", ftk.line, name=fn)
                        fields.append((fn, fe))
                        if not self.at("}"):
                            self.eat(",")
                    self.eat("}")
                    return Node("structlit", tk.line, name=name, fields=fields)
                if self.at("("):
                    a = self.args()
                    return Node("structlit", tk.line, name=name, fields=[(str(k), x) for k, x in enumerate(a)])
                fail(self.where(tk), f"`{name}` used as a value")
            if self.at("("):
                a = self.args()
                return Node("call", tk.line, path=path, args=a)
            if name == "self":
                return Node("self", tk.line)
            return Node("var", tk.line, name=name)
        if not self.at("("):
            fail(self.where(tk), f"path `{'::'.join(path)}` (constant) is outside the translated subset")
        a = self.args()
        return Node("call", tk.line, path=path, args=a)


# ------------------------------------------------------------------------------------------------
# locating items

def find_struct(toks, fname, name):
    """`struct NAME { f: int, .. }` or `struct NAME(int, ..);` -> ordered [(field, int type)]"""
    for i, tk in enumerate(toks):
        if tk.text == "struct" and tk.kind == "id" and toks[i + 1].text == name:
            j = i + 2
            fields = []
            if toks[j].text == "<":
                fail(f"{fname}:{tk.line}", f"struct {name} is generic")
            if toks[j].text == "{":
                end = matching(toks, j)
                j += 1
                while j < end:
                    if toks[j].text == "pub":
                        j += 1
                        if toks[j].text == "(":
                            j = matching(toks, j) + 1
                    fn, colon, ty = toks[j], toks[j + 1], toks[j + 2]
                    if fn.kind != "id" or colon.text != ":" or ty.text not in INT_TYPES:
                        fail(f"{fname}:{fn.line}", f"struct {name}: a field that is not `name: <integer type>`")
                    fields.append((fn.text, tint(ty.text)))
                    j += 3
                    if j < end:
                        if toks[j].text != ",":
                            fail(f"{fname}:{toks[j].line}", f"struct {name}: unexpected `{toks[j].text}`")
                        j += 1
                return fields, tk.line
            if toks[j].text == "(":
                end = matching(toks, j)
                j += 1
                k = 0
                while j < end:
                    if toks[j].text == "pub":
                        j += 1
                        if toks[j].text == "(":
                            j = matching(toks, j) + 1
                    ty = toks[j]
                    if ty.text not in INT_TYPES:
                        fail(f"{fname}:{ty.line}", f"struct {name}: a field that is not an integer type")
                    fields.append((str(k), tint(ty.text)))
                    k += 1
                    j += 1
                    if j < end:
                        if toks[j].text != ",":
                            fail(f"{fname}:{toks[j].line}", f"struct {name}: unexpected `{toks[j].text}`")
                        j += 1
                return fields, tk.line
            fail(f"{fname}:{tk.line}", f"struct {name}: unexpected shape")
    fail(fname, f"struct {name} not found")


def has_deref_to_field0(toks, name, fty):
    """exactly `impl Deref for NAME { type Target = T; fn deref(&self) -> &Self::Target { &self.0 } }`"""
    want = f"impl Deref for {name} {{ type Target = {fty} ; fn deref ( & self ) -> & Self :: Target {{ & self . 0 }} }}".split()
    texts = [tk.text for tk in toks]
    for i in range(len(texts) - len(want)):
        if texts[i : i + len(want)] == want:
            return True
    return False


def find_impl_fns(toks, fname, impl_ty, trait, names):
    """token index of the `fn` item (possibly preceded by pub/const) for each name, inside
    `impl [Trait for] Type {` (or at top level when impl_ty is None)"""
    found = {}
    if impl_ty is None:
        depth = 0
        for i, tk in enumerate(toks):
            if tk.kind == "op" and tk.text == "{":
                depth += 1
            elif tk.kind == "op" and tk.text == "}":
                depth -= 1
            elif depth == 0 and tk.kind == "id" and tk.text == "fn" and toks[i + 1].text in names:
                if toks[i + 1].text in found:
                    fail(f"{fname}:{tk.line}", f"two functions named {toks[i + 1].text}")
                found[toks[i + 1].text] = i
    else:
        header = ["impl"] + ([trait, "for"] if trait else []) + [impl_ty, "{"]
        texts = [tk.text for tk in toks]
        blocks = [i for i in range(len(texts) - len(header)) if texts[i : i + len(header)] == header]
        if not blocks:
            fail(fname, f"`{' '.join(header)}` not found")
        for b in blocks:
            o = b + len(header) - 1
            end = matching(toks, o)
            depth = 0
            for i in range(o + 1, end):
                tk = toks[i]
                if tk.kind == "op" and tk.text == "{":
                    depth += 1
                elif tk.kind == "op" and tk.text == "}":
                    depth -= 1
                elif depth == 0 and tk.kind == "id" and tk.text == "fn" and toks[i + 1].text in names:
                    if toks[i + 1].text in found:
                        fail(f"{fname}:{tk.line}", f"two functions named {impl_ty}::{toks[i + 1].text}")
                    found[toks[i + 1].text] = i
    for n in names:
        if n not in found:
            fail(fname, f"function {(impl_ty + '::') if impl_ty else ''}{n} not found")
    return found


# ------------------------------------------------------------------------------------------------
# type inference

class FnInfo:
    def __init__(self, key, ns, lean_name, node, self_ty, fname):
        self.key, self.ns, self.lean_name, self.node, self.self_ty, self.fname = key, ns, lean_name, node, self_ty, fname
        self.calls = []


class Infer:
    def __init__(self, fi, structs, derefs, fns):
        self.fi, self.structs, self.derefs, self.fns = fi, structs, derefs, fns
        self.deferred = []  # checks to run after unification
        self.nodes = []

    def w(self, node):
        return f"{self.fi.fname}:{node.line}"

    def conc(self, t):
        if isinstance(t, tuple) and t[0] == "struct" and t[1] == "Self":
            if self.fi.self_ty is None:
                fail(f"{self.fi.fname}:{self.fi.node.line}", "`Self` outside an impl")
            return T("struct", self.fi.self_ty)
        if isinstance(t, tuple) and t[0] in ("opt", "res"):
            return (t[0], self.conc(t[1]))
        return t

    def run(self):
        f = self.fi.node
        env = {}
        if f.has_self:
            env["self"] = T("struct", self.fi.self_ty)
        for pn, pt in f.params:
            env[pn] = self.conc(pt)
        self.ret = self.conc(f.ret)
        t = self.block(f.body, env)
        if f.body.tail.kind != "return":
            unify(t, self.ret, self.w(f.body.tail))
        for chk in self.deferred:
            chk()
        for n in self.nodes:
            n.ty = prune(n.ty)
            self.no_vars(n.ty, n)

    def no_vars(self, t, n):
        if isinstance(t, TVar):
            if t.lit:
                t.ref = tint("i32")
                n.ty = prune(n.ty)
                return
            fail(self.w(n), "the type of this expression cannot be determined")
        if t[0] in ("opt", "res"):
            self.no_vars(t[1], n)
            n.ty = prune(n.ty)

    def block(self, b, env):
        env = dict(env)
        for s in b.stmts:
            if s.kind == "let":
                t = self.expr(s.e, env)
                if s.ann is not None:
                    unify(t, self.conc(s.ann), self.w(s))
                env[s.name] = t
            elif s.kind == "letsome":
                t = self.expr(s.e, env)
                inner = TVar(where=self.w(s))
                unify(t, T("opt", inner), self.w(s))
                unify(self.expr(s.orelse, env), self.ret, self.w(s))
                env[s.name] = inner
            elif s.kind == "assert":
                if s.name not in env:
                    fail(self.w(s), f"unknown variable {s.name}")
                s.var_ty = env[s.name]
                for l in (s.lo, s.hi):
                    unify(self.expr(l, env), env[s.name], self.w(s))
            else:
                fail(self.w(s), "statement")
        if b.tail.kind == "return":
            unify(self.expr(b.tail.e, env), self.ret, self.w(b.tail))
            b.ty = self.ret
            return TVar(where=self.w(b.tail))  # diverges: any type
        t = self.expr(b.tail, env)
        b.ty = t
        return t

    def int_of(self, t, node, what):
        t = prune(t)
        if isinstance(t, TVar):
            if not t.lit:
                fail(self.w(node), f"{what}: the operand's type must be known here")
            return None
        if t[0] != "int":
            fail(self.w(node), f"{what} on {show(t)}")
        return t[1]

    def need_int(self, t, node, what):
        def chk():
            tt = prune(t)
            if isinstance(tt, TVar) and tt.lit:
                return
            if isinstance(tt, TVar) or tt[0] != "int":
                fail(self.w(node), f"{what} on a non-integer ({show(tt)})")
        self.deferred.append(chk)

    def expr(self, e, env):
        t = self.expr_(e, env)
        e.ty = t
        self.nodes.append(e)
        return t

    def expr_(self, e, env):
        k = e.kind
        w = self.w(e)
        if k == "lit":
            if e.suffix:
                return tint(e.suffix)
            tv = TVar(lit=True, where=w)

            def chk(tv=tv, e=e):
                tt = prune(tv)
                name = tt[1] if not isinstance(tt, TVar) else "i32"
                lo, hi = INT_TYPES[name]
                if not (lo <= e.value <= hi):
                    fail(w, f"literal {e.value} out of range for {name}")
            self.deferred.append(chk)
            return tv
        if k == "bool":
            return BOOL
        if k == "var":
            if e.name not in env:
                fail(w, f"unknown variable `{e.name}` (constants and statics are outside the translated subset)")
            return env[e.name]
        if k == "self":
            if "self" not in env:
                fail(w, "`self` in a function without a self parameter")
            return env["self"]
        if k == "paren":
            return self.expr(e.e, env)
        if k == "field":
            t = prune(self.expr(e.e, env))
            if isinstance(t, TVar) or t[0] != "struct":
                fail(w, f"field access on {show(t)}")
            for fn, ft in self.structs[t[1]]:
                if fn == e.name:
                    e.struct = t[1]
                    return ft
            fail(w, f"struct {t[1]} has no field {e.name}")
        if k == "deref":
            if e.e.kind != "self":
                fail(w, "`*` is only translated on `self`")
            t = prune(self.expr(e.e, env))
            if t[1] not in self.derefs:
                fail(w, f"`*self`: no `impl Deref for {t[1]}` returning `&self.0` was found")
            e.struct = t[1]
            return self.structs[t[1]][0][1]
        if k == "bin":
            lt = self.expr(e.l, env)
            rt = self.expr(e.r, env)
            op = e.op
            if op in ("&&", "||"):
                unify(lt, BOOL, w)
                unify(rt, BOOL, w)
                return BOOL
            if op in ("==", "!=", "<", "<=", ">", ">="):
                unify(lt, rt, w)

                def chk(lt=lt):
                    tt = prune(lt)
                    if isinstance(tt, TVar) and tt.lit:
                        return
                    if isinstance(tt, TVar) or tt[0] not in ("int", "bool") or (tt[0] == "bool" and op not in ("==", "!=")):
                        fail(w, f"`{op}` on {show(tt)} is outside the translated subset")
                self.deferred.append(chk)
                return BOOL
            if op in ("<<", ">>"):
                self.need_int(lt, e, f"`{op}`")
                self.need_int(rt, e, f"`{op}`")
                return lt
            unify(lt, rt, w)
            self.need_int(lt, e, f"`{op}`")
            return lt
        if k == "neg":
            t = self.expr(e.e, env)
            self.need_int(t, e, "unary `-`")
            return t
        if k == "not":
            t = self.expr(e.e, env)
            unify(t, BOOL, w)  # bitwise `!` on integers is outside the subset
            return BOOL
        if k == "cast":
            t = self.expr(e.e, env)

            def chk(t=t):
                tt = prune(t)
                if isinstance(tt, TVar) and tt.lit:
                    return
                if isinstance(tt, TVar) or tt[0] != "int":
                    fail(w, f"`as` from {show(tt)} is outside the translated subset")
            self.deferred.append(chk)
            return e.to
        if k == "none":
            return T("opt", TVar(where=w))
        if k == "some":
            return T("opt", self.expr(e.e, env))
        if k == "structlit":
            name = self.fi.self_ty if e.name == "Self" else e.name
            if name is None or name not in self.structs:
                fail(w, f"unknown struct {e.name}")
            e.struct = name
            decl = self.structs[name]
            if [f for f, _ in e.fields] != [f for f, _ in decl]:
                if sorted(f for f, _ in e.fields) != sorted(f for f, _ in decl):
                    fail(w, f"struct literal of {name}: fields do not match the declaration")
            for fn, fe in e.fields:
                ft = dict(decl)[fn]
                unify(self.expr(fe, env), ft, self.w(fe))
            return T("struct", name)
        if k == "if":
            unify(self.expr(e.c, env), BOOL, self.w(e.c))
            ta = self.block(e.a, env)
            tb = self.block(e.b, env)
            unify(ta, tb, w)
            return ta
        if k == "try":
            t = prune(self.expr(e.e, env))
            if isinstance(t, TVar) or t[0] != "opt":
                fail(w, f"`?` on {show(t)} (only `?` on an Option is translated)")
            r = prune(self.ret)
            if r[0] != "opt":
                fail(w, "`?` on an Option in a function that does not return an Option")
            return t[1]
        if k == "call":
            path = "::".join(e.path)
            if path in EXTERNS:
                ps = EXTERNS[path][0]
                if len(ps) != len(e.args):
                    fail(w, f"{path}: {len(ps)} arguments expected")
                for a, p in zip(e.args, ps):
                    unify(self.expr(a, env), tint(p), self.w(a))
                e.extern = path
                return T("externret", path)
            if len(e.path) == 2 and e.path[0] in INT_TYPES and e.path[1] == "from":
                if len(e.args) != 1:
                    fail(w, "from takes one argument")
                t = self.expr(e.args[0], env)
                to = e.path[0]
                e.conv = to
                self.lossless(t, tint(to), e)
                return tint(to)
            if len(e.path) == 2 and e.path[0] in ("Self", self.fi.self_ty):
                key = (self.fi.self_ty, e.path[1])
            elif len(e.path) == 1:
                key = (None, e.path[0])
            else:
                key = None
            if key not in self.fns:
                fail(w, f"call of `{path}`, which is not a translated function")
            callee = self.fns[key]
            if callee.node.has_self:
                fail(w, f"`{path}` takes self: call it as a method")
            return self.call(e, callee, e.args, env)
        if k == "method":
            name = e.name
            rt = self.expr(e.e, env)
            rp = prune(rt)
            if name == "try_into":
                self.noargs(e)
                self.need_int(rt, e, "try_into()")
                return T("res", TVar(where=w))
            if name == "into":
                self.noargs(e)
                tv = TVar(where=w)
                self.lossless(rt, tv, e)
                return tv
            if name == "ok":
                self.noargs(e)
                if isinstance(rp, TVar) or rp[0] != "res":
                    fail(w, f".ok() on {show(rp)}")
                return T("opt", rp[1])
            if name in ("expect", "unwrap"):
                if isinstance(rp, TVar) or rp[0] not in ("res", "opt"):
                    fail(w, f".{name}() on {show(rp)}")
                if name == "expect":
                    if len(e.args) != 1 or e.args[0].kind != "str":
                        fail(w, "expect takes a string literal")
                    e.msg = e.args[0].value
                else:
                    self.noargs(e)
                    e.msg = "called `unwrap()` on a `None`/`Err` value"
                return rp[1]
            if name in ("checked_add", "checked_sub", "checked_mul"):
                if len(e.args) != 1:
                    fail(w, f"{name} takes one argument")
                if self.int_of(rt, e, name) is None:
                    fail(w, f"{name} on an untyped literal")
                unify(self.expr(e.args[0], env), rt, w)
                return T("opt", rt)
            if name in ("trailing_zeros", "count_ones"):
                self.noargs(e)
                nm = self.int_of(rt, e, name)
                if nm is None or nm.startswith("i"):
                    fail(w, f"{name} is only translated on unsigned types")
                return tint("u32")
            if not isinstance(rp, TVar) and rp[0] == "struct" and (rp[1], name) in self.fns:
                callee = self.fns[(rp[1], name)]
                if not callee.node.has_self:
                    fail(w, f"`{name}` does not take self")
                return self.call(e, callee, e.args, env)
            fail(w, f"method `.{name}()` on {show(rp)} is outside the translated subset")
        if k == "str":
            fail(w, "string literal outside `expect(..)`")
        fail(w, f"expression kind {k}")

    def noargs(self, e):
        if e.args:
            fail(self.w(e), f".{e.name}() takes no argument")

    def call(self, e, callee, args, env):
        ps = callee.node.params
        if len(ps) != len(args):
            fail(self.w(e), f"{callee.lean_name}: {len(ps)} arguments expected")
        cself = callee.self_ty

        def conc(t):
            if isinstance(t, tuple) and t[0] == "struct" and t[1] == "Self":
                return T("struct", cself)
            if isinstance(t, tuple) and t[0] in ("opt", "res"):
                return (t[0], conc(t[1]))
            return t
        for a, (pn, pt) in zip(args, ps):
            unify(self.expr(a, env), conc(pt), self.w(a))
        e.callee = callee
        self.fi.calls.append(callee.key)
        return conc(callee.node.ret)

    def lossless(self, src, dst, node):
        """`T::from(e)` / `e.into()`: the standard library only has the value-preserving ones"""
        def chk():
            s, d = prune(src), prune(dst)
            if isinstance(d, TVar):
                fail(self.w(node), "the target type of this conversion cannot be determined")
            if isinstance(s, TVar) and s.lit:
                unify(s, tint("i32"), self.w(node))
                s = prune(s)
            if isinstance(s, TVar) or s[0] != "int" or d[0] != "int":
                fail(self.w(node), f"conversion {show(s)} -> {show(d)} is outside the translated subset")
            (slo, shi), (dlo, dhi) = INT_TYPES[s[1]], INT_TYPES[d[1]]
            if "size" in s[1] + d[1] and s[1] != d[1]:
                fail(self.w(node), f"no `From<{s[1]}> for {d[1]}` in the standard library")
            if not (dlo <= slo and shi <= dhi):
                fail(self.w(node), f"no `From<{s[1]}> for {d[1]}` in the standard library (not value-preserving)")
        self.deferred.append(chk)


# ------------------------------------------------------------------------------------------------
# Lean output

def lname(n):
    return f"«{n}»" if n in LEAN_KEYWORDS else n


def lty(t):
    t = prune(t)
    if t[0] == "int":
        return "Int"
    if t[0] == "bool":
        return "Bool"
    if t[0] == "struct":
        return t[1]
    if t[0] in ("opt", "res"):
        inner = lty(t[1])
        return f"Option {inner}" if " " not in inner else f"Option ({inner})"
    if t[0] == "externret":
        return " × ".join("Int" for _ in EXTERNS[t[1]][0])
    raise AssertionError(t)


def field_name(f):
    return f"v{f}" if f.isdigit() else lname(f)


def lit(v):
    return str(v) if v >= 0 else f"({v})"


class Gen:
    """code generation in continuation-passing style: `cg(e, k)` is the Lean text (of type `R ρ`) that
    evaluates `e`, in Rust's evaluation order, and goes on with `k(term)`, `term` a pure Lean term for
    the value of `e`"""

    def __init__(self, fi, structs):
        self.fi, self.structs, self.tmp = fi, structs, 0
        self.ret_ty = None

    def fresh(self):
        self.tmp += 1
        return f"tmp{self.tmp}"

    def site(self, e):
        owner = (self.fi.self_ty + "::") if self.fi.self_ty else ""
        return f'"{owner}{self.fi.node.name}:{e.line}"'

    def tyname(self, t):
        t = prune(t)
        assert t[0] == "int", t
        return "." + t[1]

    def ind(self, depth):
        return "  " * depth

    def RET(self, depth):
        def k(term):
            return f"{self.ind(depth)}.ok {atom(term)}"
        k.is_ret = True
        return k

    def gen_fn(self):
        f = self.fi.node
        params = []
        if f.has_self:
            params.append(f"(self : {self.fi.self_ty})")
        for pn, pt in f.params:
            if re.fullmatch(r"tmp\d+", pn):
                fail(f"{self.fi.fname}:{f.line}", f"parameter name {pn} clashes with the translator's temporaries")
            params.append(f"({lname(pn)} : {lty(self.conc(pt))})")
        self.ret_ty = self.conc(f.ret)
        rt = lty(self.ret_ty)
        rt = f"({rt})" if " " in rt else rt
        head = f"def {lname(self.fi.lean_name)} {' '.join(params)} : R {rt} :=".replace("  ", " ")
        body = self.block(f.body, self.RET(1), 1)
        return head + "\n" + body

    def conc(self, t):
        if isinstance(t, tuple) and t[0] == "struct" and t[1] == "Self":
            return T("struct", self.fi.self_ty)
        if isinstance(t, tuple) and t[0] in ("opt", "res"):
            return (t[0], self.conc(t[1]))
        return t

    def none_result(self, depth):
        return f"{self.ind(depth)}.ok none"

    def block(self, b, k, depth):
        """statements then tail; k receives the tail value"""
        def go(i):
            if i == len(b.stmts):
                if b.tail.kind == "return":
                    return self.cg(b.tail.e, self.RET(depth), depth)
                return self.cg(b.tail, k, depth)
            s = b.stmts[i]
            if re.fullmatch(r"tmp\d+", getattr(s, "name", "")):
                fail(f"{self.fi.fname}:{s.line}", f"local name {s.name} clashes with the translator's temporaries")
            if s.kind == "let":
                def k2(term, s=s):
                    return f"{self.ind(depth)}let {lname(s.name)} := {term}\n" + go(i + 1)
                return self.cg(s.e, k2, depth)
            if s.kind == "letsome":
                def k2(term, s=s):
                    return (f"{self.ind(depth)}match {term} with\n"
                            f"{self.ind(depth)}| none =>\n" + self.cg(s.orelse, self.RET(depth + 1), depth + 1) + "\n"
                            f"{self.ind(depth)}| some {lname(s.name)} =>\n" + go(i + 1))
                return self.cg(s.e, k2, depth)
            if s.kind == "assert":
                v = lname(s.name)
                msg = f"assertion failed: {s.text}"
                return (f"{self.ind(depth)}if {lit(s.lo.value)} ≤ {v} ∧ {v} ≤ {lit(s.hi.value)} then\n" + go(i + 1) + "\n"
                        f"{self.ind(depth)}else .error (.panic \"{msg}\")")
            raise AssertionError(s.kind)
        return go(0)

    # pure terms -----------------------------------------------------------------------------------
    def pure(self, e):
        """Lean term for `e` if its evaluation has no outcome but a value, else None"""
        k = e.kind
        if k == "lit":
            return lit(e.value)
        if k == "bool":
            return "true" if e.value else "false"
        if k == "var":
            return lname(e.name)
        if k == "self":
            return "self"
        if k == "paren":
            return self.pure(e.e)
        if k == "field":
            b = self.pure(e.e)
            return None if b is None else f"{atom(b)}.{field_name(e.name)}"
        if k == "deref":
            return f"self.{field_name('0')}"
        if k == "none":
            return "none"
        if k == "some":
            b = self.pure(e.e)
            return None if b is None else f"some {atom(b)}"
        if k == "structlit":
            parts = [self.pure(fe) for _, fe in e.fields]
            if any(p is None for p in parts):
                return None
            decl = [f for f, _ in self.structs[e.struct]]
            byname = {fn: p for (fn, _), p in zip(e.fields, parts)}
            return "{ " + ", ".join(f"{field_name(fn)} := {byname[fn]}" for fn in decl) + f" : {e.struct} }}"
        if k == "not":
            b = self.pure(e.e)
            return None if b is None else f"!{atom(b)}"
        if k == "cast":
            b = self.pure(e.e)
            if b is None:
                return None
            return f"wrap {self.tyname(e.to)} {atom(b)}"
        if k == "call" and getattr(e, "conv", None):
            return self.pure(e.args[0])
        if k == "method" and e.name == "into":
            return self.pure(e.e)
        if k == "method" and e.name in ("try_into", "checked_add", "checked_sub", "checked_mul", "ok", "trailing_zeros", "count_ones"):
            b = self.pure(e.e)
            if b is None:
                return None
            if e.name == "ok":
                return b
            if e.name == "try_into":
                return f"tryInto {self.tyname(prune(e.ty)[1])} {atom(b)}"
            if e.name in ("trailing_zeros", "count_ones"):
                fn = {"trailing_zeros": "trailingZeros", "count_ones": "countOnes"}[e.name]
                return f"{fn} {self.tyname(e.e.ty)} {atom(b)}"
            a = self.pure(e.args[0])
            if a is None:
                return None
            fn = {"checked_add": "checkedAdd", "checked_sub": "checkedSub", "checked_mul": "checkedMul"}[e.name]
            return f"{fn} {self.tyname(e.e.ty)} {atom(b)} {atom(a)}"
        if k == "bin":
            op = e.op
            l, r = self.pure(e.l), self.pure(e.r)
            if l is None or r is None:
                return None
            if op in ("&&", "||"):
                return f"{atom(l)} {op} {atom(r)}"
            if op in ("==", "!="):
                if prune(e.l.ty)[0] == "bool":
                    return f"{atom(l)} {op} {atom(r)}"
                return f"decide ({l} {'=' if op == '==' else '≠'} {r})"
            if op in ("<", "<=", ">", ">="):
                return f"decide ({l} {op.replace('<=', '≤').replace('>=', '≥')} {r})"
            if op in ("/", "%") and self.const_divisor(e.r):
                return f"Int.{'tdiv' if op == '/' else 'tmod'} {atom(l)} {atom(r)}"
            if op in ("&", "|", "^"):
                self.unsigned_only(e)
                return f"{ {'&': 'band', '|': 'bor', '^': 'bxor'}[op] } {atom(l)} {atom(r)}"
            return None
        if k == "if":
            c = self.pure(e.c)
            if c is None or e.a.stmts or e.b.stmts or e.a.tail.kind == "return" or e.b.tail.kind == "return":
                return None
            a, b = self.pure(e.a.tail), self.pure(e.b.tail)
            if a is None or b is None:
                return None
            return f"if {c} then {a} else {b}"
        return None

    def unsigned_only(self, e):
        t = prune(e.ty)
        if t[0] != "int" or t[1].startswith("i"):
            fail(f"{self.fi.fname}:{e.line}", f"bit operation `{e.op}` on {show(t)}: only unsigned types are translated")

    def const_divisor(self, r):
        """a literal divisor other than 0 and -1: `/` and `%` cannot fail"""
        while r.kind == "paren":
            r = r.e
        return r.kind == "lit" and r.value not in (0,)

    # effects --------------------------------------------------------------------------------------
    def cg(self, e, k, depth):
        p = self.pure(e)
        if p is not None:
            return k(p)
        kind = e.kind
        I = self.ind(depth)
        if kind == "paren":
            return self.cg(e.e, k, depth)
        if kind == "bin":
            op = e.op
            if op in ("&&", "||"):
                # short circuit: the right operand is evaluated only if needed
                def kl(l):
                    v = self.fresh()
                    short = "false" if op == "&&" else "true"
                    cond = l if op == "&&" else f"!{atom(l)}"
                    inner = self.cg(e.r, self.RET(depth + 2), depth + 2)
                    return (f"{I}bnd (if {cond} then\n{inner}\n{I}  else .ok {short}) fun {v} =>\n" + k(v))
                return self.cg(e.l, kl, depth)

            def kl(l):
                def kr(r):
                    if op in ("/", "%") and self.const_divisor(e.r):
                        return k(f"Int.{'tdiv' if op == '/' else 'tmod'} {atom(l)} {atom(r)}")
                    v = self.fresh()
                    if op in ("+", "-", "*", "/", "%"):
                        fn = {"+": "add", "-": "sub", "*": "mul", "/": "div", "%": "rem"}[op]
                        return f"{I}bnd ({fn} {self.tyname(e.ty)} {self.site(e)} {atom(l)} {atom(r)}) fun {v} =>\n" + k(v)
                    if op in ("<<", ">>"):
                        self.unsigned_only(e)
                        fn = {"<<": "shl", ">>": "shr"}[op]
                        return f"{I}bnd ({fn} {self.tyname(e.ty)} {self.site(e)} {atom(l)} {atom(r)}) fun {v} =>\n" + k(v)
                    # comparisons and bit operations of effectful operands: now pure in the temporaries
                    fake = Node("bin", e.line, op=op, l=Node("var", e.line, name=l), r=Node("var", e.line, name=r))
                    fake.ty = e.ty
                    fake.l.ty, fake.r.ty = e.l.ty, e.r.ty
                    fake.l.raw = fake.r.raw = True
                    return k(self.pure_raw(fake, l, r))
                return self.cg(e.r, kr, depth)
            return self.cg(e.l, kl, depth)
        if kind == "neg":
            def k1(a):
                v = self.fresh()
                return f"{I}bnd (neg {self.tyname(e.ty)} {self.site(e)} {atom(a)}) fun {v} =>\n" + k(v)
            return self.cg(e.e, k1, depth)
        if kind in ("not", "cast", "some", "field"):
            def k1(a):
                if kind == "not":
                    return k(f"!{atom(a)}")
                if kind == "cast":
                    return k(f"wrap {self.tyname(e.to)} {atom(a)}")
                if kind == "some":
                    return k(f"some {atom(a)}")
                return k(f"{atom(a)}.{field_name(e.name)}")
            return self.cg(e.e, k1, depth)
        if kind == "structlit":
            decl = [f for f, _ in self.structs[e.struct]]

            def go(i, acc):
                if i == len(e.fields):
                    byname = dict(acc)
                    return k("{ " + ", ".join(f"{field_name(fn)} := {byname[fn]}" for fn in decl) + f" : {e.struct} }}")
                fn, fe = e.fields[i]
                return self.cg(fe, lambda a: go(i + 1, acc + [(fn, a)]), depth)
            return go(0, [])
        if kind == "try":
            def k1(a):
                v = self.fresh()
                return f"{I}match {a} with\n{I}| none => .ok none\n{I}| some {v} =>\n" + k(v)
            return self.cg(e.e, k1, depth)
        if kind == "if":
            def kc(c):
                if getattr(k, "is_ret", False):
                    return (f"{I}if {c} then\n" + self.block(e.a, self.RET(depth + 1), depth + 1) + f"\n{I}else\n"
                            + self.block(e.b, self.RET(depth + 1), depth + 1))
                v = self.fresh()
                return (f"{I}bnd (if {c} then\n" + self.block(e.a, self.RET(depth + 2), depth + 2) + f"\n{I}  else\n"
                        + self.block(e.b, self.RET(depth + 2), depth + 2) + f") fun {v} =>\n" + k(v))
            return self.cg(e.c, kc, depth)
        if kind == "call":
            if getattr(e, "conv", None):
                return self.cg(e.args[0], k, depth)
            if getattr(e, "extern", None):
                return self.cg_args(e.args, lambda terms: k("(" + ", ".join(terms) + ")"), depth)
            return self.cg_call(e, e.callee, None, e.args, k, depth)
        if kind == "method":
            name = e.name
            if name in ("expect", "unwrap"):
                def k1(a):
                    v = self.fresh()
                    return f"{I}match {a} with\n{I}| none => .error (.panic \"{e.msg}\")\n{I}| some {v} =>\n" + k(v)
                return self.cg(e.e, k1, depth)
            if name in ("ok", "into"):
                return self.cg(e.e, k, depth)
            if name == "try_into":
                return self.cg(e.e, lambda a: k(f"tryInto {self.tyname(prune(e.ty)[1])} {atom(a)}"), depth)
            if name in ("trailing_zeros", "count_ones"):
                fn = {"trailing_zeros": "trailingZeros", "count_ones": "countOnes"}[name]
                return self.cg(e.e, lambda a: k(f"{fn} {self.tyname(e.e.ty)} {atom(a)}"), depth)
            if name in ("checked_add", "checked_sub", "checked_mul"):
                fn = {"checked_add": "checkedAdd", "checked_sub": "checkedSub", "checked_mul": "checkedMul"}[name]
                return self.cg(e.e, lambda a: self.cg(e.args[0], lambda b: k(f"{fn} {self.tyname(e.e.ty)} {atom(a)} {atom(b)}"), depth), depth)
            return self.cg_call(e, e.callee, e.e, e.args, k, depth)
        fail(f"{self.fi.fname}:{e.line}", f"cannot translate expression kind {kind}")

    def pure_raw(self, fake, l, r):
        op = fake.op
        if op in ("==", "!="):
            if prune(fake.l.ty)[0] == "bool":
                return f"{atom(l)} {op} {atom(r)}"
            return f"decide ({l} {'=' if op == '==' else '≠'} {r})"
        if op in ("<", "<=", ">", ">="):
            return f"decide ({l} {op.replace('<=', '≤').replace('>=', '≥')} {r})"
        if op in ("&", "|", "^"):
            self.unsigned_only(fake)
            return f"{ {'&': 'band', '|': 'bor', '^': 'bxor'}[op] } {atom(l)} {atom(r)}"
        fail(f"{self.fi.fname}:{fake.line}", f"operator {op}")

    def cg_args(self, args, k, depth):
        def go(i, acc):
            if i == len(args):
                return k(acc)
            return self.cg(args[i], lambda a: go(i + 1, acc + [a]), depth)
        return go(0, [])

    def cg_call(self, e, callee, recv, args, k, depth):
        I = self.ind(depth)
        allargs = ([recv] if recv is not None else []) + list(args)

        def kk(terms):
            fn = callee.lean_name if callee.ns == self.fi.ns else f"{callee.ns}.{callee.lean_name}"
            call = " ".join([lname(fn)] + [atom(t) for t in terms])
            if getattr(k, "is_ret", False) and prune(e.ty) == prune(self.ret_ty):
                return f"{I}{call}"
            v = self.fresh()
            return f"{I}bnd ({call}) fun {v} =>\n" + k(v)
        return self.cg_args(allargs, kk, depth)


def atom(term):
    """parenthesise a term unless it is atomic"""
    if re.fullmatch(r"[\w«».]+|\(.*\)|\{.*\}|\"[^\"]*\"", term) and balanced_atom(term):
        return term
    return f"({term})"


def balanced_atom(term):
    if term[0] not in "({":
        return True
    depth = 0
    for i, c in enumerate(term):
        if c in "({":
            depth += 1
        elif c in ")}":
            depth -= 1
            if depth == 0 and i != len(term) - 1:
                return False
    return True


# ------------------------------------------------------------------------------------------------

def translate(repo, overrides):
    def path_of(rel):
        return overrides.get(rel, os.path.join(repo, rel))

    toks_of = {}

    def toks(rel):
        if rel not in toks_of:
            p = path_of(rel)
            try:
                src = open(p, encoding="utf-8").read()
            except OSError as ex:
                fail(rel, f"cannot read {p}: {ex}")
            toks_of[rel] = strip_attrs(tokenize(src, rel))
        return toks_of[rel]

    structs, struct_src, derefs = {}, {}, set()
    for rel, name in STRUCTS:
        fields, line = find_struct(toks(rel), rel, name)
        structs[name] = fields
        struct_src[name] = f"{rel}:{line}"
        if len(fields) == 1 and fields[0][0] == "0" and has_deref_to_field0(toks(rel), name, fields[0][1][1]):
            derefs.add(name)

    fns, order = {}, []
    for rel, impl_ty, trait, names in TARGETS:
        tk = toks(rel)
        where = find_impl_fns(tk, rel, impl_ty, trait, names)
        ns = impl_ty if impl_ty else FREE_NS[rel]
        for n in names:
            p = Parser(tk, rel, set(structs))
            p.i = where[n]
            node = p.fn()
            if node.name != n:
                fail(f"{rel}:{node.line}", f"expected fn {n}")
            key = (impl_ty, n)
            if key in fns:
                fail(f"{rel}:{node.line}", f"{impl_ty}::{n} is defined twice (inherent and trait impl)")
            fi = FnInfo(key, ns, n, node, impl_ty, rel)
            fns[key] = fi
            order.append(key)

    for key in order:
        Infer(fns[key], structs, derefs, fns).run()

    # dependency order (no recursion)
    done, emitted = set(), []

    def visit(key, stack):
        if key in done:
            return
        if key in stack:
            fail(fns[key].fname, f"recursion through {key[1]} is outside the translated subset")
        for c in fns[key].calls:
            visit(c, stack + [key])
        done.add(key)
        emitted.append(key)
    for key in order:
        visit(key, [])

    files = sorted({rel for rel, *_ in TARGETS} | {rel for rel, _ in STRUCTS})
    L = ["/-", "GENERATED by translators/rs2lean.py from"]
    L += [f"  {f}" for f in files]
    L += ["— do not edit.",
          "One definition per Rust function, in Rust's evaluation order, over OH/Model/RustInt.lean: values are `Int`s",
          "whose machine type the translator tracked; `add/sub/mul/div/rem/shl/shr .T \"fn:line\"` are the checked",
          "operations of type T (overflow / zero divisor = explicit `.error` outcome), `Int.tdiv/Int.tmod` are `/` `%` by",
          "a non-zero literal (cannot fail), `wrap .T` is `as T`, `tryInto .T` is `try_into()`, `T::from`/`into()` are",
          "value-preserving and leave no trace, `?` on an Option is the `none => .ok none` arm, `expect`/`assert!` the",
          "`.error (.panic ..)` arm.  OH/Props/Arith*.lean ties these definitions to the hand-written models.",
          "-/", "import OH.Model.RustInt", "namespace OH.Generated.Arith", "open OH.Model.RustInt", ""]
    used_structs = []
    for key in emitted:
        fi = fns[key]
        if fi.self_ty and fi.self_ty not in used_structs:
            used_structs.append(fi.self_ty)
    for name in used_structs:
        L.append(f"/-- `struct {name}` ({struct_src[name]}) -/")
        L.append(f"structure {name} where")
        for fn, ft in structs[name]:
            L.append(f"  {field_name(fn)} : Int  -- {ft[1]}")
        L.append("  deriving DecidableEq, Repr")
        L.append("")
    cur = None
    for key in emitted:
        fi = fns[key]
        if fi.ns != cur:
            if cur is not None:
                L.append(f"end {cur}")
                L.append("")
            L.append(f"namespace {fi.ns}")
            L.append("")
            cur = fi.ns
        f = fi.node
        sig = ", ".join((["self"] if f.has_self else []) + [f"{pn}: {show(Infer.conc(Infer(fi, structs, derefs, fns), pt))}" for pn, pt in f.params])
        owner = (fi.self_ty + "::") if fi.self_ty else ""
        rshow = show(f.ret).replace("Self", fi.self_ty or "Self")
        L.append(f"/-- `{owner}{f.name}({sig}) -> {rshow}` ({fi.fname}:{f.line}) -/")
        L.append(Gen(fi, structs).gen_fn())
        L.append("")
    if cur is not None:
        L.append(f"end {cur}")
        L.append("")
    L.append("end OH.Generated.Arith")
    return "\n".join(L) + "\n"


def main(argv):
    repo, out, overrides = REPO, OUT, {}
    i = 0
    while i < len(argv):
        a = argv[i]
        if a == "--repo":
            repo = argv[i + 1]
            i += 2
        elif a == "--out":
            out = argv[i + 1]
            i += 2
        elif a == "--override":
            rel, _, p = argv[i + 1].partition("=")
            if not p:
                print("rs2lean: --override REL=FILE", file=sys.stderr)
                return 2
            overrides[rel] = p
            i += 2
        else:
            print(__doc__, file=sys.stderr)
            return 2
    try:
        text = translate(repo, overrides)
    except Fail as ex:
        print(f"rs2lean: {ex}", file=sys.stderr)
        return 1
    old = open(out, encoding="utf-8").read() if os.path.exists(out) else None
    if old != text:
        os.makedirs(os.path.dirname(out), exist_ok=True)
        with open(out, "w", encoding="utf-8") as f:
            f.write(text)
        print(f"rs2lean: wrote {out}")
    else:
        print(f"rs2lean: {out} unchanged")
    return 0


if __name__ == "__main__":
    sys.exit(main(sys.argv[1:]))
